(* Proofs/GenEquivPop.v — the numpy array code of selection and fitness invalidation, TRANSLATED from the current
   pyhms/core/population.py, sea.py and de.py (Gen/GenPop.v), is the selection / population model of Model/Select.v and Model/Pop.v that
   the C12 / C13 / C04 / C02 theorems are about.  A population is two aligned lists (genomes, fitness keys); np.argsort is an oracle. *)
From Coq Require Import List Bool Arith ZArith Lia.
From HV Require Import Ord Select Pop GenPop.
Import ListNotations.

Section PopEquiv.
  Context {G : Type} (geq : G -> G -> bool) (gdef : G).
  Notation pop := (pop (G:=G)).

  Definition aligned (p : pop) : Prop := length (pg p) = length (pf p).
  Definition rows_of (p : pop) : list (G * Z) := combine (pg p) (pf p).

  Lemma take_idx_combine (gs : list G) (fs : list Z) idx : length gs = length fs ->
    combine (take_idx gdef gs idx) (take_idx 0%Z fs idx) = map (fun i => nth i (combine gs fs) (gdef, 0%Z)) idx.
  Proof. intros L. unfold take_idx. induction idx as [|i r IH]; cbn; [reflexivity|]. now rewrite IH, combine_nth. Qed.
  Lemma combine_nil_r {A B} (l : list A) : combine l (@nil B) = [].
  Proof. now destruct l. Qed.
  Lemma combine_app' {A B} : forall (a a' : list A) (b b' : list B), length a = length b -> combine (a ++ a') (b ++ b') = combine a b ++ combine a' b'.
  Proof. induction a as [|x a IH]; intros a' [|y b] b' L; cbn in *; try discriminate; [reflexivity|]. now rewrite IH by lia. Qed.
  Lemma pick_combine {A B} (m : list bool) : forall (a : list A) (b : list B), combine (pick m a) (pick m b) = pick m (combine a b).
  Proof.
    induction m as [|x m IH]; intros a b; [reflexivity|]. destruct a as [|a0 a]; [now destruct x|].
    destruct b as [|b0 b]; [cbn; destruct x; apply combine_nil_r|]. cbn. destruct x; cbn; now rewrite IH.
  Qed.

  (* Population.__getitem__ / merge keep the rows together *)
  Theorem getitem_mask_rows p m : rows_of (gen_getitem_mask p m) = pick m (rows_of p).
  Proof. unfold rows_of, gen_getitem_mask. cbn [pg pf]. apply pick_combine. Qed.
  Theorem getitem_idx_rows p idx : aligned p -> rows_of (gen_getitem_idx gdef p idx) = map (fun i => nth i (rows_of p) (gdef, 0%Z)) idx.
  Proof. intros A. unfold rows_of, gen_getitem_idx. cbn [pg pf]. now apply take_idx_combine. Qed.
  Theorem merge_rows p q : aligned p -> rows_of (gen_merge p q) = rows_of p ++ rows_of q.
  Proof. intros A. unfold rows_of, gen_merge. cbn [pg pf]. now apply combine_app'. Qed.
  Theorem merge_aligned p q : aligned p -> aligned q -> aligned (gen_merge p q).
  Proof. unfold aligned, gen_merge. cbn [pg pf]. rewrite !app_length. lia. Qed.

  (* from_individuals / to_individuals: an individual's genome and fitness stay one row, in order, both ways *)
  Theorem from_individuals_rows (inds : list (G * Z)) : rows_of (gen_from_individuals inds) = inds /\ aligned (gen_from_individuals inds).
  Proof.
    unfold rows_of, aligned, gen_from_individuals. cbn [pg pf]. rewrite !map_length. split; [|reflexivity].
    induction inds as [|[g z] r IH]; cbn; [reflexivity|now rewrite IH].
  Qed.
  Theorem to_individuals_rows p : gen_to_individuals p = rows_of p.
  Proof. reflexivity. Qed.

  (* Population.topk = the model topk on the fitness keys, same indices for the genomes *)
  Theorem topk_fits mx p k order : aligned p -> pf (gen_topk gdef mx p k order) = topk mx k (pf p) order.
  Proof.
    intros A. unfold gen_topk, topk, topk_idx, take_idx, at_. cbn [pf]. rewrite Nat.max_0_r, A. now destruct mx.
  Qed.
  Theorem topk_aligned mx p k order : aligned (gen_topk gdef mx p k order).
  Proof. unfold aligned, gen_topk, take_idx. cbn [pg pf]. now rewrite !map_length. Qed.
  Theorem topk_rows mx p k order : aligned p ->
    rows_of (gen_topk gdef mx p k order) = map (fun i => nth i (rows_of p) (gdef, 0%Z)) (topk_idx mx k (length (pf p)) order).
  Proof.
    intros A. unfold rows_of, gen_topk, topk_idx. cbn [pg pf]. rewrite Nat.max_0_r, A. destruct mx; now apply take_idx_combine.
  Qed.

  (* BaseSEA.select_new_population = sea_select *)
  Theorem select_new_population_fits mx k_elites parents offspring o1 o2 : aligned parents -> aligned offspring ->
    pf (gen_select_new_population gdef mx k_elites parents offspring o1 o2) = sea_select mx k_elites (pf parents) (pf offspring) o1 o2.
  Proof.
    intros Ap Ao. unfold gen_select_new_population, sea_select. rewrite topk_fits.
    - unfold gen_merge at 1. cbn [pf]. now rewrite (topk_fits mx parents k_elites o1 Ap), Ap.
    - apply merge_aligned; [exact Ao|apply topk_aligned].
  Qed.

  (* BaseSEA.run (inherited by SEA, SEAWithCrossover, GAStyleSEA) and SEAWithAdaptiveMutation.run: the elites are taken from the population
     made of the PARENTS the deme handed in, the rest from what the operator pipeline made of those parents *)
  Theorem BaseSEA_run_fits mx k_elites pipeline parents o1 o2 : aligned parents -> aligned (pipeline parents) ->
    pf (gen_BaseSEA_run gdef mx k_elites pipeline parents o1 o2) = sea_select mx k_elites (pf parents) (pf (pipeline parents)) o1 o2.
  Proof. intros Ap Ao. unfold gen_BaseSEA_run. now apply select_new_population_fits. Qed.
  Theorem SEAWithAdaptiveMutation_run_fits mx k_elites pipeline parents o1 o2 : aligned parents -> aligned (pipeline parents) ->
    pf (gen_SEAWithAdaptiveMutation_run gdef mx k_elites pipeline parents o1 o2) = sea_select mx k_elites (pf parents) (pf (pipeline parents)) o1 o2.
  Proof. intros Ap Ao. unfold gen_SEAWithAdaptiveMutation_run. now apply BaseSEA_run_fits. Qed.

  (* TournamentSelection: every row of the result is the row of the GIVEN population at the winner of one tournament (np.random.randint is
     an oracle); the winner of a row is its first best entry in the problem's direction; size stays the number of tournaments *)
  Definition tour_winners (mx : bool) (fs : list Z) (tour : list (list nat)) : list nat :=
    map2 (fun (row : list nat) (k : nat) => nth k row O) tour (map (first_arg mx) (map (take_idx 0%Z fs) tour)).
  Theorem tournament_rows mx p tour : aligned p ->
    rows_of (gen_TournamentSelection_call gdef mx p tour) = map (fun i => nth i (rows_of p) (gdef, 0%Z)) (tour_winners mx (pf p) tour).
  Proof. intros A. unfold gen_TournamentSelection_call, tour_winners, rows_of. cbn [pg pf]. destruct mx; now apply take_idx_combine. Qed.
  Theorem tournament_pair mx fs j0 j1 :
    nth (first_arg mx (take_idx 0%Z fs [j0; j1])) [j0; j1] O = nth (tournament_pick mx (nth j0 fs 0%Z) (nth j1 fs 0%Z)) [j0; j1] O.
  Proof.
    unfold take_idx, first_arg, tournament_pick, Ord.better, Ord.good. cbn [map first_arg_from].
    destruct mx; [destruct (Z.ltb_spec (nth j0 fs 0%Z) (nth j1 fs 0%Z)), (Z.ltb_spec (- nth j1 fs 0%Z) (- nth j0 fs 0%Z))
                 |destruct (Z.ltb_spec (nth j1 fs 0%Z) (nth j0 fs 0%Z))]; try reflexivity; lia.
  Qed.
  Theorem tournament_size mx p tour : length (pf (gen_TournamentSelection_call gdef mx p tour)) = length tour.
  Proof.
    unfold gen_TournamentSelection_call, take_idx. cbn [pf]. destruct mx; rewrite map_length; clear;
      (induction tour as [|r t IH]; [reflexivity|cbn [map map2 length]; now rewrite IH]).
  Qed.

  (* DE.run / SHADE.run: the mask and the survivors *)
  Lemma de_mask_eq (mx : bool) : forall ts ps : list Z,
    (if mx then map2 (fun x y => Z.leb y x) ts ps else map2 (fun x y => Z.leb x y) ts ps) = de_mask mx ts ps.
  Proof. destruct mx; induction ts as [|t ts IH]; intros [|p ps]; cbn; try reflexivity; now rewrite IH. Qed.
  Theorem DE_result_fits mx (trial parents : pop) : pf (gen_DE_result mx trial parents) = de_select mx (pf trial) (pf parents).
  Proof. unfold gen_DE_result, gen_merge, gen_getitem_mask, de_select. cbn [pf]. now rewrite de_mask_eq. Qed.
  Theorem SHADE_result_fits mx (trial parents : pop) : pf (gen_SHADE_result mx trial parents) = de_select mx (pf trial) (pf parents).
  Proof. unfold gen_SHADE_result, gen_merge, gen_getitem_mask, de_select. cbn [pf]. now rewrite de_mask_eq. Qed.
  (* DE.run / SHADE.run as a whole: the trial population is what evaluate made of the crossover of the PARENTS with the mutation of the
     parents; it is compared row by row with those same parents *)
  Theorem DE_run_fits mutation crossover evaluate mx (parents : pop) :
    pf (gen_DE_run mutation crossover evaluate mx parents) = de_select mx (pf (evaluate (crossover parents (mutation parents)))) (pf parents).
  Proof. unfold gen_DE_run. apply DE_result_fits. Qed.
  Theorem SHADE_run_fits mutation crossover evaluate mx (parents : pop) :
    pf (gen_SHADE_run mutation crossover evaluate mx parents) = de_select mx (pf (evaluate (crossover parents (mutation parents)))) (pf parents).
  Proof. unfold gen_SHADE_run. apply SHADE_result_fits. Qed.
  Lemma pick_aligned (m : list bool) : forall (gs : list G) (fs : list Z), length gs = length fs -> length (pick m gs) = length (pick m fs).
  Proof. induction m as [|b m IH]; intros [|g gs] [|f fs] L; cbn in *; try reflexivity; try discriminate. injection L as L. destruct b; cbn; [f_equal|]; now apply IH. Qed.
  Theorem DE_result_rows mx (trial parents : pop) : aligned trial ->
    rows_of (gen_DE_result mx trial parents) =
    pick (de_mask mx (pf trial) (pf parents)) (rows_of trial) ++ pick (map negb (de_mask mx (pf trial) (pf parents))) (rows_of parents).
  Proof.
    intros A. unfold gen_DE_result. rewrite de_mask_eq. rewrite merge_rows, !getitem_mask_rows; [reflexivity|].
    unfold aligned, gen_getitem_mask. cbn [pg pf]. now apply pick_aligned.
  Qed.
  Theorem SHADE_result_rows mx (trial parents : pop) : aligned trial ->
    rows_of (gen_SHADE_result mx trial parents) =
    pick (de_mask mx (pf trial) (pf parents)) (rows_of trial) ++ pick (map negb (de_mask mx (pf trial) (pf parents))) (rows_of parents).
  Proof.
    intros A. unfold gen_SHADE_result. rewrite de_mask_eq. rewrite merge_rows, !getitem_mask_rows; [reflexivity|].
    unfold aligned, gen_getitem_mask. cbn [pg pf]. now apply pick_aligned.
  Qed.

  (* the four DE operators: a trial row keeps its parent's fitness exactly when its genome is IDENTICAL, NaN (None) otherwise *)
  Notation popo := (popo (G:=G)).
  Definition rows_o (p : popo) : list (G * option Z) := combine (pgo p) (pfo p).
  Lemma keep_rule (p : popo) : forall new, length (pgo p) = length (pfo p) ->
    combine new (where_nan (rows_eq geq new (pgo p)) (pfo p)) = de_trial geq (rows_o p) new.
  Proof.
    unfold rows_o, where_nan, rows_eq. generalize (pgo p) (pfo p). intros gs fs new. revert gs fs.
    induction new as [|g' new IH]; intros [|g gs] [|f fs] L; cbn in *; try reflexivity; try discriminate.
    rewrite IH by lia. reflexivity.
  Qed.
  Theorem BinaryMutation_keep p new : length (pgo p) = length (pfo p) -> combine new (gen_BinaryMutation_new_fitness geq p new) = de_trial geq (rows_o p) new.
  Proof. apply keep_rule. Qed.
  Theorem BinaryMutationWithDither_keep p new : length (pgo p) = length (pfo p) -> combine new (gen_BinaryMutationWithDither_new_fitness geq p new) = de_trial geq (rows_o p) new.
  Proof. apply keep_rule. Qed.
  Theorem CurrentToPBestMutation_keep p new : length (pgo p) = length (pfo p) -> combine new (gen_CurrentToPBestMutation_new_fitness geq p new) = de_trial geq (rows_o p) new.
  Proof. apply keep_rule. Qed.
  Theorem Crossover_keep p new : length (pgo p) = length (pfo p) -> combine new (gen_Crossover_new_fitness geq p new) = de_trial geq (rows_o p) new.
  Proof. apply keep_rule. Qed.

  (* Population.update_genome: exactly the rows whose genome changed get the new genome and lose their fitness *)
  Theorem update_genome_rows p : forall new, length (pgo p) = length (pfo p) -> length new = length (pgo p) ->
    rows_o (gen_update_genome geq p new) = update_genome geq (rows_o p) new.
  Proof.
    unfold rows_o, gen_update_genome, rows_ne. cbn [pgo pfo]. generalize (pgo p) (pfo p). intros gs fs new. revert gs fs.
    induction new as [|g' new IH]; intros [|g gs] [|f fs] L1 L2; cbn in *; try reflexivity; try discriminate.
    rewrite IH by lia. unfold update_row. cbn [fst snd]. destruct (geq g' g); reflexivity.
  Qed.
  (* Population.evaluate: only the rows without a fitness are evaluated, in row order; the others keep their value *)
  Theorem evaluate_rows (f : G -> Z) p : length (pgo p) = length (pfo p) -> rows_o (gen_evaluate f p) = evaluate f (rows_o p).
  Proof.
    unfold rows_o, gen_evaluate, evaluate. cbn [pgo pfo]. generalize (pgo p) (pfo p). intros gs. induction gs as [|g gs IH]; intros [|fo fs] L; cbn in *; try reflexivity; try discriminate.
    rewrite IH by lia. unfold eval_row. cbn [fst snd]. destruct fo; reflexivity.
  Qed.
  Theorem evaluate_requests_eq p : gen_evaluate_requests p = requests (rows_o p).
  Proof. reflexivity. Qed.
  Lemma map2_length {A B C} (h : A -> B -> C) : forall a b, length (map2 h a b) = Nat.min (length a) (length b).
  Proof. induction a as [|x a IH]; intros [|y b]; cbn; try reflexivity. now rewrite IH. Qed.
  Lemma update_genome_aligned p new : length (pgo p) = length (pfo p) -> length new = length (pgo p) ->
    length (pgo (gen_update_genome geq p new)) = length (pfo (gen_update_genome geq p new)).
  Proof. intros L1 L2. unfold gen_update_genome, rows_ne. cbn [pgo pfo]. rewrite !map2_length, combine_length. lia. Qed.
  (* the mutation / crossover operators of the SEA family: rows whose genome changed lose their fitness and are re-evaluated (if the
     operator evaluates), the others keep genome and fitness and are NOT evaluated again *)
  Theorem GaussianMutation_rows f ev p new : length (pgo p) = length (pfo p) -> length new = length (pgo p) ->
    rows_o (gen_GaussianMutation_call geq f ev p new) = evaluate f (update_genome geq (rows_o p) new).
  Proof. intros L1 L2. unfold gen_GaussianMutation_call. now rewrite evaluate_rows, update_genome_rows by (try apply update_genome_aligned; assumption). Qed.
  Theorem UniformMutation_rows f ev p new : length (pgo p) = length (pfo p) -> length new = length (pgo p) ->
    rows_o (gen_UniformMutation_call geq f ev p new) = evaluate f (update_genome geq (rows_o p) new).
  Proof. intros L1 L2. unfold gen_UniformMutation_call. now rewrite evaluate_rows, update_genome_rows by (try apply update_genome_aligned; assumption). Qed.
  Theorem ArithmeticCrossover_rows f ev p new : length (pgo p) = length (pfo p) -> length new = length (pgo p) ->
    rows_o (gen_ArithmeticCrossover_call geq f ev p new) = if ev then evaluate f (update_genome geq (rows_o p) new) else update_genome geq (rows_o p) new.
  Proof.
    intros L1 L2. unfold gen_ArithmeticCrossover_call. destruct ev; [|now apply update_genome_rows].
    now rewrite evaluate_rows, update_genome_rows by (try apply update_genome_aligned; assumption).
  Qed.
End PopEquiv.
