(* Proofs/BoundsZFacts.v — in exact arithmetic every repair method lands in the box, fixes in-box points, and changes a coordinate
   as prescribed: clip to the nearest face; reflect to a point congruent to +/- the input modulo twice the range; toroidal to a
   point congruent to the input modulo the range (coordinates relative to the lower face).  C17, the part rounding cannot blur. *)
From Coq Require Import ZArith Bool Lia.
From HV Require Import BoundsZ.
Local Open Scope Z_scope.

Lemma insideZ_spec x lo hi : insideZ x lo hi = true <-> lo <= x <= hi.
Proof. unfold insideZ. rewrite andb_true_iff, !Z.leb_le. tauto. Qed.
Lemma clipZ_in lo hi v : lo <= hi -> lo <= clipZ v lo hi <= hi.
Proof. unfold clipZ. lia. Qed.
Lemma clipZ_id lo hi v : lo <= v <= hi -> clipZ v lo hi = v.
Proof. unfold clipZ. lia. Qed.

Theorem clipZ_nearest x lo hi : lo <= hi -> (x < lo -> clipZ x lo hi = lo) /\ (hi < x -> clipZ x lo hi = hi) /\ (lo <= x <= hi -> clipZ x lo hi = x).
Proof. unfold clipZ. lia. Qed.

Theorem reflectZ_spec x lo hi : lo < hi ->
  lo <= reflectZ x lo hi <= hi /\ (lo <= x <= hi -> reflectZ x lo hi = x) /\
  exists k, reflectZ x lo hi - lo = (x - lo) + 2 * (hi - lo) * k \/ reflectZ x lo hi - lo = - (x - lo) + 2 * (hi - lo) * k.
Proof.
  intros Hr. unfold reflectZ. destruct (insideZ x lo hi) eqn:E.
  - apply insideZ_spec in E. split; [exact E|]. split; [reflexivity|]. exists 0. left. lia.
  - set (r := hi - lo). set (n := x - lo). assert (0 < r) as Rp by (unfold r; lia).
    pose proof (Z.div_mod n r ltac:(lia)) as D. pose proof (Z.mod_pos_bound n r Rp) as M.
    pose proof (Z.div_mod (n / r) 2 ltac:(lia)) as D2. pose proof (Z.mod_pos_bound (n / r) 2 ltac:(lia)) as M2.
    destruct (Z.eqb_spec ((n / r) mod 2) 1) as [Odd|Even].
    + rewrite clipZ_id by lia. split; [lia|]. split; [intros H; apply insideZ_spec in H; congruence|].
      exists ((n / r) / 2 + 1). right. fold r n. nia.
    + assert ((n / r) mod 2 = 0) as Ev by lia. rewrite clipZ_id by lia. split; [lia|]. split; [intros H; apply insideZ_spec in H; congruence|].
      exists (- ((n / r) / 2)). left. fold r n. nia.
Qed.

Theorem toroidalZ_spec x lo hi : lo < hi ->
  lo <= toroidalZ x lo hi <= hi /\ (lo <= x <= hi -> toroidalZ x lo hi = x) /\
  exists k, toroidalZ x lo hi - lo = (x - lo) + (hi - lo) * k.
Proof.
  intros Hr. unfold toroidalZ. destruct (insideZ x lo hi) eqn:E.
  - apply insideZ_spec in E. split; [exact E|]. split; [reflexivity|]. exists 0. lia.
  - set (r := hi - lo). set (n := x - lo). assert (0 < r) as Rp by (unfold r; lia).
    pose proof (Z.div_mod n r ltac:(lia)) as D. pose proof (Z.mod_pos_bound n r Rp) as M.
    rewrite clipZ_id by lia. split; [lia|]. split; [intros H; apply insideZ_spec in H; congruence|].
    exists (- (n / r)). fold r n. nia.
Qed.
