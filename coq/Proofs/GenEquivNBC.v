(* Proofs/GenEquivNBC.v — nearest-better clustering TRANSLATED from the current pyhms/utils/clusterization.py (Gen/GenNBC.v) is the model
   of Model/NBC.v that the C15 theorems are about: the candidates offered for an individual, its nearest-better distance, its parent in the
   spanning tree, the returned seeds (in order), the list of edge lengths the mean is taken over, and the truncation. *)
From Coq Require Import ZArith List Bool Arith.
From HV Require Import NBC GenNBC.
Import ListNotations.
Local Open Scope Z_scope.

Section Equiv.
  Variable D : nat -> nat -> Z.
  Theorem gen_ncand_eq gs i : gen_ncand gs i = ncand gs i.
  Proof. reflexivity. Qed.
  Theorem gen_edge_eq gs i : gen_edge D gs i = nbd D gs i.
  Proof. reflexivity. Qed.
  Theorem gen_parent_eq gs i : gen_parent D gs i = parent D gs i.
  Proof. reflexivity. Qed.
  Theorem gen_cluster_eq gs thr : gen_cluster D gs thr = nbc D gs thr.
  Proof. reflexivity. Qed.
  Theorem gen_distances_eq gs : gen_distances D gs = edge_lengths D gs.
  Proof. reflexivity. Qed.
End Equiv.
Theorem gen_individuals_eq {A} m (sorted : list A) : gen_individuals m sorted = truncate m sorted.
Proof. reflexivity. Qed.
