(* Proofs/GenEquivEntropy.v — every entropy source found in /repo's current sources is controlled by options.random_seed, and the
   constructor seeds both global generators (obligations over the GENERATED table, re-checked on every run). *)
From Coq Require Import List Bool Arith ZArith.
From HV Require Import Rng GenEntropy.
Import ListNotations.

Lemma sources_controlled : forallb (fun r => controlled (snd r)) entropy_table = true.
Proof. vm_compute. reflexivity. Qed.
Lemma both_generators_seeded : 2 <= n_seeding_sites.
Proof. vm_compute. repeat constructor. Qed.
Lemma table_nonempty : 10 <= length entropy_table.
Proof. vm_compute. repeat constructor. Qed.

Theorem seeded_run_independent_of_prior {Cfg State Result} (run_from : Cfg -> State * State -> Result) seed_np seed_py c s prior1 prior2 :
  run run_from seed_np seed_py c (Some s) prior1 = run run_from seed_np seed_py c (Some s) prior2.
Proof. reflexivity. Qed.
