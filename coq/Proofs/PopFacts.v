(* Proofs/PopFacts.v — the mechanisms behind "stored individuals carry the true fitness of their genome" (C02): a row's fitness
   survives an update iff its genome is bit-identical; evaluate fills exactly the missing values and asks the problem exactly for
   those rows; DE / SHADE trials keep the parent's fitness only for an identical genome.  For any objective f and equality geq. *)
From Coq Require Import List Bool Arith Lia.
From HV Require Import Pop.
Import ListNotations.

Section Facts.
  Context {G F : Type} (geq : G -> G -> bool) (geq_spec : forall a b, geq a b = true <-> a = b) (f : G -> F).

  Lemma update_row_spec (r : @row G F) g' : fst (update_row geq r g') = g' /\ (snd (update_row geq r g') = if geq g' (fst r) then snd r else None).
  Proof. unfold update_row. destruct (geq g' (fst r)) eqn:E; simpl; [apply geq_spec in E; subst|]; auto. Qed.
  Lemma update_row_valued (r : @row G F) g' : well_valued f r -> well_valued f (update_row geq r g').
  Proof. unfold update_row. destruct (geq g' (fst r)); [auto|intros _; exact I]. Qed.
  Theorem update_genome_valued (p : list (@row G F)) : forall new, Forall (well_valued f) p -> Forall (well_valued f) (update_genome geq p new).
  Proof.
    induction p as [|r p IH]; intros [|g' n'] H; simpl; constructor. - apply update_row_valued. now inversion H. - apply IH. now inversion H.
  Qed.
  Theorem update_genome_genomes (p : list (@row G F)) : forall new, length new = length p -> map fst (update_genome geq p new) = new.
  Proof.
    induction p as [|r p IH]; intros [|g' n'] L; simpl in *; try discriminate; auto. f_equal; [apply update_row_spec|apply IH; lia].
  Qed.
  (* after evaluate every row has a fitness, and it is the objective's value for its own genome *)
  Theorem evaluate_true (p : list (@row G F)) : Forall (well_valued f) p -> Forall (fun r => snd r = Some (f (fst r))) (evaluate f p).
  Proof.
    unfold evaluate. induction 1 as [|r p H _ IH]; simpl; constructor; auto. unfold eval_row, well_valued in *. destruct (snd r) eqn:E; simpl; [now rewrite E, H|reflexivity].
  Qed.
  Theorem evaluate_keeps_genomes (p : list (@row G F)) : map fst (evaluate f p) = map fst p.
  Proof. unfold evaluate. rewrite map_map. apply map_ext. intros r. unfold eval_row. destruct (snd r); reflexivity. Qed.
  (* the problem is asked exactly for the rows whose fitness was missing, in order (so the evaluation count is the number of changed rows) *)
  Theorem evaluate_requests (p : list (@row G F)) : length (requests p) = length (filter (fun r => match snd r with None => true | Some _ => false end) p).
  Proof. unfold requests. now rewrite map_length. Qed.
  Theorem unchanged_rows_not_reevaluated (r : @row G F) v : snd r = Some v -> eval_row f r = r.
  Proof. unfold eval_row. now intros ->. Qed.
  (* DE / SHADE trials *)
  Theorem de_trial_valued (parents : list (@row G F)) : forall new, Forall (well_valued f) parents -> Forall (well_valued f) (de_trial geq parents new).
  Proof.
    induction parents as [|r p IH]; intros [|g' n'] H; simpl; constructor.
    - unfold well_valued. simpl. destruct (geq g' (fst r)) eqn:E; [|exact I]. apply geq_spec in E. subst. inversion H; subst. assumption.
    - apply IH. now inversion H.
  Qed.
  (* one whole operator step: update + evaluate leaves a population in which every fitness is true *)
  Theorem mutate_then_evaluate_true (p : list (@row G F)) new : Forall (well_valued f) p -> Forall (fun r => snd r = Some (f (fst r))) (evaluate f (update_genome geq p new)).
  Proof. intros H. apply evaluate_true. now apply update_genome_valued. Qed.
End Facts.
