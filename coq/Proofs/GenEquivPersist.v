(* Proofs/GenEquivPersist.v — obligations over the table GENERATED from the current sources (Gen/GenPersist.v): no class of the package
   customises pickling or copying, pickle_dump / pickle_load are the plain dump / load of the tree object.  With python's pickle contract
   (trusted: the default pickle of an object graph restores every attribute of every object, shared objects once) the restored tree IS
   the dumped tree, which is what C19's resume theorems start from. *)
From Coq Require Import List String Bool.
From HV Require Import GenPersist.
Import ListNotations.

Theorem snapshot_is_default_pickle : pickle_customisations = [] /\ dump_is_plain = true /\ load_is_plain = true.
Proof. repeat split. Qed.
