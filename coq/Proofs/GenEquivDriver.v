(* Proofs/GenEquivDriver.v — the programs translated from /repo's CURRENT pyhms/tree.py and deme classes (Gen/GenDriver.v, regenerated on
   every check) do, on every state and every event stream, exactly what the hand-written big-step driver of Model/Driver.v does.
   The proofs are extensional (case analysis on what each primitive returns), so they survive rewrites of the python source that keep
   the order and the conditions of the effects. *)
From Coq Require Import List Bool Arith ZArith Lia.
From HV Require Import Ord Sprout Tree DriverPrim Driver GenDriver.
Import ListNotations.

Lemma while_ext {L} (c1 c2 : L -> D bool) (b1 b2 : L -> D (L * bool)) :
  (forall l s e, c1 l s e = c2 l s e) -> (forall l s e, b1 l s e = b2 l s e) ->
  forall fuel l s e, while_ fuel c1 b1 l s e = while_ fuel c2 b2 l s e.
Proof.
  intros Hc Hb. induction fuel as [|f IH]; intros l s e; [reflexivity|]. cbn [while_]. unfold bind. rewrite Hc.
  destruct (c2 l s e) as [[[b s1] e1]|]; [|reflexivity]. destruct b; [|reflexivity]. rewrite Hb.
  destruct (b2 l s1 e1) as [[[r s2] e2]|]; [|reflexivity]. destruct (snd r); [reflexivity|]. apply IH.
Qed.
Lemma for_ext {X} (b1 b2 : X -> D bool) : (forall x s e, b1 x s e = b2 x s e) -> forall xs s e, for_ xs b1 s e = for_ xs b2 s e.
Proof.
  intros Hb. induction xs as [|x r IH]; intros s e; [reflexivity|]. cbn [for_]. unfold bind. rewrite Hb.
  destruct (b2 x s e) as [[[b s1] e1]|]; [|reflexivity]. destruct b; [reflexivity|]. apply IH.
Qed.
(* a for loop whose body never returns *)
Lemma for_false {X} (b : X -> D bool) : (forall x s e r, b x s e = Some r -> fst (fst r) = false) ->
  forall xs s e r, for_ xs b s e = Some r -> fst (fst r) = false.
Proof.
  intros Hb. induction xs as [|x xs IH]; intros s e r H.
  - unfold for_, ret in H. injection H as <-. reflexivity.
  - cbn [for_] in H. unfold bind in H. destruct (b x s e) as [[[v s1] e1]|] eqn:E; [|discriminate].
    apply Hb in E. cbn in E. subst v. now apply IH in H.
Qed.

(* case analysis on the result of the next primitive, innermost first *)
Ltac dcase :=
  match goal with
  | |- context [match for_ ?xs ?b ?s ?e with _ => _ end] => destruct (for_ xs b s e) as [[[? ?] ?]|] eqn:?
  | |- context [match while_ ?f ?c ?b ?l ?s ?e with _ => _ end] => destruct (while_ f c b l s e) as [[[? ?] ?]|] eqn:?
  | |- context [match ?x with _ => _ end] =>
      lazymatch x with
      | context [match _ with _ => _ end] => fail
      | context [if _ then _ else _] => fail
      | _ => destruct x as [[[? ?] ?]|] eqn:?
      end
  | |- context [if ?x then _ else _] =>
      lazymatch x with
      | context [match _ with _ => _ end] => fail
      | context [if _ then _ else _] => fail
      | _ => destruct x eqn:?
      end
  end.
Ltac dunf := repeat (progress (unfold or_, and_, bind, ret, get_st; cbn beta iota zeta)).
Ltac dunit := repeat match goal with u : unit |- _ => destruct u end.
Ltac dsolve := dunf; repeat (first [reflexivity | congruence | dcase; cbn beta iota zeta in *; dunf; dunit]).

(* ---------------------------------------------------------------- the deme loops *)
Lemma gens_cond_eq c d g s e :
  (s1 <- get_st ;; ret (Nat.ltb g (gens_of c (d_lvl (dnth d (demes s1)))))) s e = gens_cond c d g s e.
Proof. reflexivity. Qed.

Lemma EA_cond c fuel d g s e : gen_EADeme_run_metaepoch_cond1 c fuel d g s e = gens_cond c d g s e. Proof. reflexivity. Qed.
Lemma DE_cond c fuel d g s e : gen_DEDeme_run_metaepoch_cond1 c fuel d g s e = gens_cond c d g s e. Proof. reflexivity. Qed.
Lemma SHADE_cond c fuel d g s e : gen_SHADEDeme_run_metaepoch_cond1 c fuel d g s e = gens_cond c d g s e. Proof. reflexivity. Qed.
Lemma CMA_cond c fuel d g s e : gen_CMADeme_run_metaepoch_cond1 c fuel d g s e = gens_cond c d g s e. Proof. reflexivity. Qed.

Lemma EA_body c fuel d g s e : gen_EADeme_run_metaepoch_body1 c fuel d g s e = pop_body c d g s e.
Proof. unfold gen_EADeme_run_metaepoch_body1, pop_body. rewrite Nat.add_1_r. dsolve. Qed.
Lemma DE_body c fuel d g s e : gen_DEDeme_run_metaepoch_body1 c fuel d g s e = pop_body c d g s e.
Proof. unfold gen_DEDeme_run_metaepoch_body1, pop_body. rewrite Nat.add_1_r. dsolve. Qed.
Lemma SHADE_body c fuel d g s e : gen_SHADEDeme_run_metaepoch_body1 c fuel d g s e = pop_body c d g s e.
Proof. unfold gen_SHADEDeme_run_metaepoch_body1, pop_body. rewrite Nat.add_1_r. dsolve. Qed.
Lemma CMA_body c fuel d g s e : gen_CMADeme_run_metaepoch_body1 c fuel d g s e = cma_body c d g s e.
Proof. unfold gen_CMADeme_run_metaepoch_body1, cma_body. rewrite Nat.add_1_r. dsolve. Qed.

(* every population engine class (EADeme, DEDeme, SHADEDeme) runs the same driver loop *)
Theorem gen_EADeme_eq c fuel d s e : gen_EADeme_run_metaepoch c fuel d s e = run_pop c fuel d s e.
Proof.
  unfold gen_EADeme_run_metaepoch, run_pop. unfold bind at 1 2. unfold bind at 3.
  rewrite (while_ext _ _ _ _ (EA_cond c fuel d) (EA_body c fuel d)). dsolve.
Qed.
Theorem gen_DEDeme_eq c fuel d s e : gen_DEDeme_run_metaepoch c fuel d s e = run_pop c fuel d s e.
Proof.
  unfold gen_DEDeme_run_metaepoch, run_pop. unfold bind at 1 2. unfold bind at 3.
  rewrite (while_ext _ _ _ _ (DE_cond c fuel d) (DE_body c fuel d)). dsolve.
Qed.
Theorem gen_SHADEDeme_eq c fuel d s e : gen_SHADEDeme_run_metaepoch c fuel d s e = run_pop c fuel d s e.
Proof.
  unfold gen_SHADEDeme_run_metaepoch, run_pop. unfold bind at 1 2. unfold bind at 3.
  rewrite (while_ext _ _ _ _ (SHADE_cond c fuel d) (SHADE_body c fuel d)). dsolve.
Qed.
Theorem gen_CMADeme_eq c fuel d s e : gen_CMADeme_run_metaepoch c fuel d s e = run_cma c fuel d s e.
Proof.
  unfold gen_CMADeme_run_metaepoch, run_cma. unfold bind at 1 2. unfold bind at 3.
  rewrite (while_ext _ _ _ _ (CMA_cond c fuel d) (CMA_body c fuel d)). dsolve.
Qed.
Theorem gen_LocalDeme_eq c fuel d s e : gen_LocalDeme_run_metaepoch c fuel d s e = run_local d s e.
Proof. unfold gen_LocalDeme_run_metaepoch, run_local. dsolve. Qed.
Theorem gen_LHSDeme_eq c fuel d s e : gen_LHSDeme_run_metaepoch c fuel d s e = run_sampler c d s e.
Proof. unfold gen_LHSDeme_run_metaepoch, gen_LHSDeme_run, run_sampler. dsolve. Qed.
Theorem gen_SobolDeme_eq c fuel d s e : gen_SobolDeme_run_metaepoch c fuel d s e = run_sampler c d s e.
Proof. unfold gen_SobolDeme_run_metaepoch, gen_SobolDeme_run, run_sampler. dsolve. Qed.

(* the class table of the translator: seven classes, each of the kind whose program it was proved equal to above *)
Theorem gen_deme_classes_ok : map snd gen_deme_classes = [KPop; KPop; KPop; KCma; KLocal; KSampler; KSampler].
Proof. reflexivity. Qed.

Theorem gen_run_deme_eq c fuel d s e : gen_run_deme c fuel d s e = run_deme c fuel d s e.
Proof.
  unfold gen_run_deme, run_deme, r_level, deme_of. dunf.
  destruct (kind_of c (d_lvl (dnth d (demes (ms s))))).
  - apply gen_EADeme_eq.
  - apply gen_CMADeme_eq.
  - apply gen_LocalDeme_eq.
  - apply gen_LHSDeme_eq.
Qed.

(* ---------------------------------------------------------------- tree.py *)
Theorem gen_active_demes_eq c ds : gen_active_demes c ds = active_demes c ds. Proof. reflexivity. Qed.
Theorem gen_active_non_leaves_eq c ds : gen_active_non_leaves c ds = active_non_leaves c ds. Proof. reflexivity. Qed.

Definition meta_body (c : cfg) (fuel : nat) (d : nat) : D bool :=
  h <- r_hibernating d ;; if hib_on c && h then ret false else run_deme c fuel d ;;; ret false.
Lemma meta_body_eq c fuel x s e : gen_tree_run_metaepoch_for1 c fuel x s e = meta_body c fuel x s e.
Proof.
  unfold gen_tree_run_metaepoch_for1, meta_body, r_hibernating, deme_of. dunf.
  destruct (hib_on c); cbn [andb]; [|now rewrite gen_run_deme_eq].
  destruct (d_hib (dnth x (demes (ms s)))); [reflexivity|now rewrite gen_run_deme_eq].
Qed.
Theorem gen_tree_run_metaepoch_eq c fuel s e : gen_tree_run_metaepoch c fuel s e = run_metaepoch c fuel s e.
Proof.
  unfold gen_tree_run_metaepoch, run_metaepoch. dunf. rewrite gen_active_demes_eq.
  rewrite (for_ext _ _ (meta_body_eq c fuel)). unfold meta_body. dsolve.
Qed.

Lemma sprout_child_eq c fuel it1 seeds target x s e :
  gen_tree__do_sprout_for2 c fuel it1 seeds target x s e = sprout_child (fst it1) target s e.
Proof. unfold gen_tree__do_sprout_for2, sprout_child, r_metaepoch_count. dsolve. Qed.
Lemma sprout_parent_eq c fuel seeds pk s e :
  gen_tree__do_sprout_for1 c fuel seeds pk s e = (lv <- r_level (fst pk) ;; for_ (snd pk) (fun _ => sprout_child (fst pk) (S lv))) s e.
Proof.
  unfold gen_tree__do_sprout_for1, r_level, deme_of. dunf. rewrite Nat.add_1_r.
  rewrite (for_ext _ _ (sprout_child_eq c fuel pk seeds _)).
  destruct (for_ (snd pk) _ s e) as [[[b s1] e1]|] eqn:E; [|reflexivity].
  apply (for_false (fun _ : Z => sprout_child (fst pk) (S (d_lvl (dnth (fst pk) (demes (ms s))))))) in E; [cbn in E; now subst b|].
  intros x s0 e0 r H. unfold sprout_child in H. revert H. dunf. repeat (dcase; cbn beta iota zeta; dunf); intros H; try discriminate; now injection H as <-.
Qed.
Theorem gen_tree__do_sprout_eq c fuel seeds s e : gen_tree__do_sprout c fuel seeds s e = do_sprout_b seeds s e.
Proof.
  unfold gen_tree__do_sprout, do_sprout_b. dunf. rewrite (for_ext _ _ (sprout_parent_eq c fuel seeds)). dsolve.
Qed.

Lemma hib_body_eq c fuel seeds parts x s e :
  gen_tree_run_sprout_for1 c fuel seeds parts x s e = (p_set_hibernating x (negb (in_seeds seeds x)) ;;; ret false) s e.
Proof. unfold gen_tree_run_sprout_for1. destruct (in_seeds seeds x); reflexivity. Qed.
Theorem gen_tree_run_sprout_eq c fuel s e : gen_tree_run_sprout c fuel s e = run_sprout c s e.
Proof.
  unfold gen_tree_run_sprout, run_sprout. dunf. rewrite gen_active_non_leaves_eq.
  destruct (p_get_seeds c s e) as [[[seeds s1] e1]|]; [|reflexivity]. rewrite gen_tree__do_sprout_eq.
  destruct (do_sprout_b seeds s1 e1) as [[[[] s2] e2]|]; [|reflexivity]. rewrite andb_diag.
  destruct (hib_on c); [|reflexivity].
  rewrite (for_ext _ _ (hib_body_eq c fuel seeds _)). dsolve.
Qed.

Theorem gen_tree_run_step_eq c fuel s e : gen_tree_run_step c fuel s e = run_step c fuel s e.
Proof.
  unfold gen_tree_run_step, run_step. dunf.
  destruct (p_inc_metaepoch c s e) as [[[[] s1] e1]|]; [|reflexivity]. rewrite gen_tree_run_metaepoch_eq.
  destruct (run_metaepoch c fuel s1 e1) as [[[[] s2] e2]|]; [|reflexivity].
  destruct (p_gsc c s2 e2) as [[[v s3] e3]|]; [|reflexivity]. destruct v; cbn [negb]; [reflexivity|].
  rewrite gen_tree_run_sprout_eq. dsolve.
Qed.

Lemma run_cond_eq c fuel l s e : gen_tree_run_cond1 c fuel l s e = (v <- p_gsc c ;; ret (negb v)) s e. Proof. reflexivity. Qed.
Lemma run_body_eq c fuel l s e : gen_tree_run_body1 c fuel l s e = (run_step c fuel ;;; ret (tt, false)) s e.
Proof. unfold gen_tree_run_body1. dunf. rewrite gen_tree_run_step_eq. reflexivity. Qed.

(* THE TIE: the run() translated from the current sources is the big-step driver that Proofs/DriverFacts.v relates to the machine *)
Theorem gen_tree_run_eq c fuel s e : gen_tree_run c fuel s e = run_tree c fuel s e.
Proof.
  unfold gen_tree_run, run_tree. unfold bind at 1 2. unfold bind at 3.
  rewrite (while_ext _ _ _ _ (run_cond_eq c fuel) (run_body_eq c fuel)). dsolve.
Qed.
