(* Proofs/GenEquivDriver.v — the programs translated from /repo's CURRENT pyhms/tree.py and deme classes (Gen/GenDriver.v, regenerated on
   every check) do, on every state and every event stream, exactly what the hand-written big-step driver of Model/Driver.v does.
   The proofs are extensional (case analysis on what each primitive returns), so they survive rewrites of the python source that keep
   the order and the conditions of the effects. *)
From Coq Require Import List Bool Arith ZArith Lia.
From HV Require Import Ord Sprout Tree DriverPrim Driver GenDriver.
Import ListNotations.

Lemma while_ext {L} (c1 c2 : L -> D bool) (b1 b2 : L -> D (L * bool)) :
  (forall l s e, c1 l s e = c2 l s e) -> (forall l s e, b1 l s e = b2 l s e) ->
  forall fuel l s e, while_ fuel c1 b1 l s e = while_ fuel c2 b2 l s e.
Proof.
  intros Hc Hb. induction fuel as [|f IH]; intros l s e; [reflexivity|]. cbn [while_]. unfold bind. rewrite Hc.
  destruct (c2 l s e) as [[[b s1] e1]|]; [|reflexivity]. destruct b; [|reflexivity]. rewrite Hb.
  destruct (b2 l s1 e1) as [[[r s2] e2]|]; [|reflexivity]. destruct (snd r); [reflexivity|]. apply IH.
Qed.
Lemma for_ext {X} (b1 b2 : X -> D bool) : (forall x s e, b1 x s e = b2 x s e) -> forall xs s e, for_ xs b1 s e = for_ xs b2 s e.
Proof.
  intros Hb. induction xs as [|x r IH]; intros s e; [reflexivity|]. cbn [for_]. unfold bind. rewrite Hb.
  destruct (b2 x s e) as [[[b s1] e1]|]; [|reflexivity]. destruct b; [reflexivity|]. apply IH.
Qed.
(* a for loop whose body never returns *)
Lemma for_false {X} (b : X -> D bool) : (forall x s e r, b x s e = Some r -> fst (fst r) = false) ->
  forall xs s e r, for_ xs b s e = Some r -> fst (fst r) = false.
Proof.
  intros Hb. induction xs as [|x xs IH]; intros s e r H.
  - unfold for_, ret in H. injection H as <-. reflexivity.
  - cbn [for_] in H. unfold bind in H. destruct (b x s e) as [[[v s1] e1]|] eqn:E; [|discriminate].
    apply Hb in E. cbn in E. subst v. now apply IH in H.
Qed.

(* case analysis on the result of the next primitive, outermost closed scrutinee first; equalities already proved about translated
   sub-programs (hint database gendrv) are used as soon as their arguments are closed terms *)
Ltac batom x :=
  lazymatch x with
  | andb ?p _ => batom p
  | orb ?p _ => batom p
  | negb ?p => batom p
  | _ => x
  end.
Ltac dcase :=
  match goal with
  | |- context [match for_ ?xs ?b ?s ?e with _ => _ end] => destruct (for_ xs b s e) as [[[? ?] ?]|] eqn:?
  | |- context [match while_ ?f ?c ?b ?l ?s ?e with _ => _ end] => destruct (while_ f c b l s e) as [[[? ?] ?]|] eqn:?
  | |- context [match ?x with _ => _ end] =>
      lazymatch x with
      | context [match _ with _ => _ end] => fail
      | context [if _ then _ else _] => fail
      | _ => lazymatch type of x with bool => fail | _ => destruct x as [[[? ?] ?]|] eqn:? end
      end
  | |- context [if ?x then _ else _] =>
      lazymatch x with
      | context [match _ with _ => _ end] => fail
      | context [if _ then _ else _] => fail
      | _ => let a := batom x in destruct a eqn:?
      end
  end.
Ltac dunf := repeat (progress (unfold or_, and_, bind, ret, get_st, r_level, r_hibernating, r_generations, r_metaepoch_count, deme_of; cbn beta iota zeta)).
Ltac dunit := repeat match goal with u : unit |- _ => destruct u end.
Create HintDb gendrv.
(* field updates of one deme that do not depend on each other may come in any order in the source: both sides are brought to the
   normal form "one update function per deme" and compared field by field *)
Lemma upd_upd' i f g l : upd i f (upd i g l) = upd i (fun d => f (g d)) l.
Proof. revert i. induction l as [|x l IH]; intros [|i]; cbn; try reflexivity. now rewrite IH. Qed.
Lemma upd_ext i f g l : (forall d, f d = g d) -> upd i f l = upd i g l.
Proof. intros E. revert i. induction l as [|x l IH]; intros [|i]; cbn; try reflexivity; [now rewrite E|now rewrite IH]. Qed.
Ltac dstate :=
  unfold p_append_meta, p_count_evals, p_deactivate, p_set_hibernating; cbn beta iota zeta;
  cbn [ms with_ms pend set_demes with_state demes seen mcount pc steps clock born_after_seen last_round];
  rewrite ?upd_upd'; repeat f_equal; apply upd_ext; intros []; reflexivity.
Ltac dsolve := dunf; rewrite ?Nat.add_1_r;
  repeat (first [reflexivity | congruence | progress (autorewrite with gendrv) | solve [dstate] | dcase; cbn beta iota zeta in *; cbn [andb orb negb] in *; dunf; dunit; try discriminate]).

(* ---------------------------------------------------------------- the deme loops *)
Lemma EA_cond c fuel d g s e : gen_EADeme_run_metaepoch_cond1 c fuel d g s e = gens_cond c d g s e.
Proof. unfold gen_EADeme_run_metaepoch_cond1, gens_cond. dsolve. Qed.
Lemma DE_cond c fuel d g s e : gen_DEDeme_run_metaepoch_cond1 c fuel d g s e = gens_cond c d g s e.
Proof. unfold gen_DEDeme_run_metaepoch_cond1, gens_cond. dsolve. Qed.
Lemma SHADE_cond c fuel d g s e : gen_SHADEDeme_run_metaepoch_cond1 c fuel d g s e = gens_cond c d g s e.
Proof. unfold gen_SHADEDeme_run_metaepoch_cond1, gens_cond. dsolve. Qed.
Lemma CMA_cond c fuel d g s e : gen_CMADeme_run_metaepoch_cond1 c fuel d g s e = gens_cond c d g s e.
Proof. unfold gen_CMADeme_run_metaepoch_cond1, gens_cond. dsolve. Qed.

Lemma EA_body c fuel d g s e : gen_EADeme_run_metaepoch_body1 c fuel d g s e = pop_body c d g s e.
Proof. unfold gen_EADeme_run_metaepoch_body1, pop_body. dsolve. Qed.
Lemma DE_body c fuel d g s e : gen_DEDeme_run_metaepoch_body1 c fuel d g s e = pop_body c d g s e.
Proof. unfold gen_DEDeme_run_metaepoch_body1, pop_body. dsolve. Qed.
Lemma SHADE_body c fuel d g s e : gen_SHADEDeme_run_metaepoch_body1 c fuel d g s e = pop_body c d g s e.
Proof. unfold gen_SHADEDeme_run_metaepoch_body1, pop_body. dsolve. Qed.
Lemma CMA_body c fuel d g s e : gen_CMADeme_run_metaepoch_body1 c fuel d g s e = cma_body c d g s e.
Proof. unfold gen_CMADeme_run_metaepoch_body1, cma_body. dsolve. Qed.

Lemma EA_loop c fuel d g s e : while_ fuel (gen_EADeme_run_metaepoch_cond1 c fuel d) (gen_EADeme_run_metaepoch_body1 c fuel d) g s e = while_ fuel (gens_cond c d) (pop_body c d) g s e.
Proof. apply while_ext; [apply EA_cond|apply EA_body]. Qed.
Lemma DE_loop c fuel d g s e : while_ fuel (gen_DEDeme_run_metaepoch_cond1 c fuel d) (gen_DEDeme_run_metaepoch_body1 c fuel d) g s e = while_ fuel (gens_cond c d) (pop_body c d) g s e.
Proof. apply while_ext; [apply DE_cond|apply DE_body]. Qed.
Lemma SHADE_loop c fuel d g s e : while_ fuel (gen_SHADEDeme_run_metaepoch_cond1 c fuel d) (gen_SHADEDeme_run_metaepoch_body1 c fuel d) g s e = while_ fuel (gens_cond c d) (pop_body c d) g s e.
Proof. apply while_ext; [apply SHADE_cond|apply SHADE_body]. Qed.
Lemma CMA_loop c fuel d g s e : while_ fuel (gen_CMADeme_run_metaepoch_cond1 c fuel d) (gen_CMADeme_run_metaepoch_body1 c fuel d) g s e = while_ fuel (gens_cond c d) (cma_body c d) g s e.
Proof. apply while_ext; [apply CMA_cond|apply CMA_body]. Qed.
#[export] Hint Rewrite EA_loop DE_loop SHADE_loop CMA_loop : gendrv.

(* every population engine class (EADeme, DEDeme, SHADEDeme) runs the same driver loop *)
Theorem gen_EADeme_eq c fuel d s e : gen_EADeme_run_metaepoch c fuel d s e = run_pop c fuel d s e.
Proof. unfold gen_EADeme_run_metaepoch, run_pop. dsolve. Qed.
Theorem gen_DEDeme_eq c fuel d s e : gen_DEDeme_run_metaepoch c fuel d s e = run_pop c fuel d s e.
Proof. unfold gen_DEDeme_run_metaepoch, run_pop. dsolve. Qed.
Theorem gen_SHADEDeme_eq c fuel d s e : gen_SHADEDeme_run_metaepoch c fuel d s e = run_pop c fuel d s e.
Proof. unfold gen_SHADEDeme_run_metaepoch, run_pop. dsolve. Qed.
Theorem gen_CMADeme_eq c fuel d s e : gen_CMADeme_run_metaepoch c fuel d s e = run_cma c fuel d s e.
Proof. unfold gen_CMADeme_run_metaepoch, run_cma. dsolve. Qed.
Theorem gen_LocalDeme_eq c fuel d s e : gen_LocalDeme_run_metaepoch c fuel d s e = run_local d s e.
Proof. unfold gen_LocalDeme_run_metaepoch, run_local. dsolve. Qed.
Theorem gen_LHSDeme_eq c fuel d s e : gen_LHSDeme_run_metaepoch c fuel d s e = run_sampler c d s e.
Proof. unfold gen_LHSDeme_run_metaepoch, gen_LHSDeme_run, run_sampler. dsolve. Qed.
Theorem gen_SobolDeme_eq c fuel d s e : gen_SobolDeme_run_metaepoch c fuel d s e = run_sampler c d s e.
Proof. unfold gen_SobolDeme_run_metaepoch, gen_SobolDeme_run, run_sampler. dsolve. Qed.

(* the class table of the translator: seven classes, each of the kind whose program it was proved equal to above *)
Theorem gen_deme_classes_ok : map snd gen_deme_classes = [KPop; KPop; KPop; KCma; KLocal; KSampler; KSampler].
Proof. reflexivity. Qed.

Theorem gen_run_deme_eq c fuel d s e : gen_run_deme c fuel d s e = run_deme c fuel d s e.
Proof.
  unfold gen_run_deme, run_deme. dunf.
  destruct (kind_of c (d_lvl (dnth d (demes (ms s))))).
  - apply gen_EADeme_eq.
  - apply gen_CMADeme_eq.
  - apply gen_LocalDeme_eq.
  - apply gen_LHSDeme_eq.
Qed.
#[export] Hint Rewrite gen_run_deme_eq : gendrv.

(* ---------------------------------------------------------------- tree.py *)
Theorem gen_active_demes_eq c ds : gen_active_demes c ds = active_demes c ds. Proof. reflexivity. Qed.
Theorem gen_active_non_leaves_eq c ds : gen_active_non_leaves c ds = active_non_leaves c ds. Proof. reflexivity. Qed.
#[export] Hint Rewrite gen_active_demes_eq gen_active_non_leaves_eq : gendrv.

Lemma meta_body_eq c fuel x s e : gen_tree_run_metaepoch_for1 c fuel x s e = meta_body c fuel x s e.
Proof. unfold gen_tree_run_metaepoch_for1, meta_body. dsolve. Qed.
Lemma meta_loop c fuel xs s e : for_ xs (gen_tree_run_metaepoch_for1 c fuel) s e = for_ xs (meta_body c fuel) s e.
Proof. apply for_ext. apply meta_body_eq. Qed.
#[export] Hint Rewrite meta_loop : gendrv.
Theorem gen_tree_run_metaepoch_eq c fuel s e : gen_tree_run_metaepoch c fuel s e = run_metaepoch c fuel s e.
Proof. unfold gen_tree_run_metaepoch, run_metaepoch. dsolve. Qed.
#[export] Hint Rewrite gen_tree_run_metaepoch_eq : gendrv.

(* joining the level first and being adopted afterwards = being adopted first *)
Lemma upd_last (f : deme -> deme) : forall ds ch, upd (length (ds ++ [ch]) - 1) f (ds ++ [ch]) = ds ++ [f ch].
Proof.
  intros ds ch. rewrite app_length. cbn [length]. replace (length ds + 1 - 1) with (length ds) by lia.
  induction ds as [|d r IH]; cbn; [reflexivity|now rewrite IH].
Qed.
Lemma append_then_adopt {A} l ch p (k : D A) s e :
  bind (p_append_level l ch) (fun _ => bind (p_adopt_last p) (fun _ => k)) s e = bind (p_append_level l (add_child p ch)) (fun _ => k) s e.
Proof.
  unfold bind, p_append_level, p_adopt_last. change (d_lvl (add_child p ch)) with (d_lvl ch). destruct (negb (Nat.eqb l (d_lvl ch))); [reflexivity|].
  cbn [ms with_ms set_demes with_state demes mcount pc seen steps clock born_after_seen last_round pend]. now rewrite upd_last.
Qed.
Lemma sprout_child_eq c fuel it1 target x s e :
  gen_tree__do_sprout_for2 c fuel it1 target x s e = sprout_child (fst it1) target s e.
Proof.
  unfold gen_tree__do_sprout_for2, sprout_child. dunf.
  first [ solve [dsolve]
        | (* the child joins its level first and is adopted afterwards *)
          destruct (p_init_from_config _ _ _ s e) as [[[a s'] e']|]; [|reflexivity];
          unfold p_append_level, p_adopt_last; change (d_lvl (add_child (fst it1) a)) with (d_lvl a);
          destruct (negb (Nat.eqb _ (d_lvl a))); [reflexivity|];
          cbn [ms with_ms set_demes with_state demes mcount pc seen steps clock born_after_seen last_round pend]; now rewrite upd_last ].
Qed.
Lemma sprout_child_loop c fuel it1 target xs s e :
  for_ xs (gen_tree__do_sprout_for2 c fuel it1 target) s e = for_ xs (fun _ => sprout_child (fst it1) target) s e.
Proof. apply for_ext. intros. apply sprout_child_eq. Qed.
#[export] Hint Rewrite sprout_child_loop : gendrv.
Lemma sprout_child_never_returns p target (x : Z) s e r : sprout_child p target s e = Some r -> fst (fst r) = false.
Proof. unfold sprout_child. dunf. repeat (dcase; cbn beta iota zeta; dunf); intros H; try discriminate; now injection H as <-. Qed.
Lemma sprout_children_never_return p target (xs : list Z) s e b s1 e1 :
  for_ xs (fun _ => sprout_child p target) s e = Some (b, s1, e1) -> b = false.
Proof. intros H. apply (for_false (fun _ : Z => sprout_child p target)) in H; [exact H|]. intros x. apply (sprout_child_never_returns p target x). Qed.
Lemma sprout_parent_eq c fuel pk s e :
  gen_tree__do_sprout_for1 c fuel pk s e = sprout_parent pk s e.
Proof.
  unfold gen_tree__do_sprout_for1, sprout_parent. dunf. rewrite ?Nat.add_1_r. autorewrite with gendrv.
  destruct (for_ (snd pk) _ s e) as [[[b s1] e1]|] eqn:E; [|reflexivity]. apply sprout_children_never_return in E. now subst b.
Qed.
Lemma sprout_parent_loop c fuel xs s e :
  for_ xs (gen_tree__do_sprout_for1 c fuel) s e = for_ xs sprout_parent s e.
Proof. apply for_ext. intros. apply sprout_parent_eq. Qed.
#[export] Hint Rewrite sprout_parent_loop : gendrv.
Theorem gen_tree__do_sprout_eq c fuel seeds s e : gen_tree__do_sprout c fuel seeds s e = do_sprout_b seeds s e.
Proof. unfold gen_tree__do_sprout, do_sprout_b. dsolve. Qed.
#[export] Hint Rewrite gen_tree__do_sprout_eq : gendrv.

Lemma hib_body_eq c fuel seeds x s e :
  gen_tree_run_sprout_for1 c fuel seeds x s e = hib_body seeds x s e.
Proof. unfold gen_tree_run_sprout_for1, hib_body. dsolve. Qed.
Lemma hib_loop c fuel seeds xs s e :
  for_ xs (gen_tree_run_sprout_for1 c fuel seeds) s e = for_ xs (hib_body seeds) s e.
Proof. apply for_ext. intros. apply hib_body_eq. Qed.
#[export] Hint Rewrite hib_loop : gendrv.
Theorem gen_tree_run_sprout_eq c fuel s e : gen_tree_run_sprout c fuel s e = run_sprout c s e.
Proof. unfold gen_tree_run_sprout, run_sprout. dsolve. Qed.
#[export] Hint Rewrite gen_tree_run_sprout_eq : gendrv.

Theorem gen_tree_run_step_eq c fuel s e : gen_tree_run_step c fuel s e = run_step c fuel s e.
Proof. unfold gen_tree_run_step, run_step. dsolve. Qed.
#[export] Hint Rewrite gen_tree_run_step_eq : gendrv.

Lemma run_cond_eq c fuel l s e : gen_tree_run_cond1 c fuel l s e = run_cond c l s e.
Proof. unfold gen_tree_run_cond1, run_cond. dsolve. Qed.
Lemma run_body_eq c fuel l s e : gen_tree_run_body1 c fuel l s e = run_body c fuel l s e.
Proof. unfold gen_tree_run_body1, run_body. dsolve. Qed.
Lemma run_loop c fuel l s e :
  while_ fuel (gen_tree_run_cond1 c fuel) (gen_tree_run_body1 c fuel) l s e =
  while_ fuel (run_cond c) (run_body c fuel) l s e.
Proof. apply while_ext; [apply run_cond_eq|apply run_body_eq]. Qed.
#[export] Hint Rewrite run_loop : gendrv.

(* THE TIE: the run() translated from the current sources is the big-step driver that Proofs/DriverFacts.v relates to the machine *)
Theorem gen_tree_run_eq c fuel s e : gen_tree_run c fuel s e = run_tree c fuel s e.
Proof. unfold gen_tree_run, run_tree. dsolve. Qed.
