(* Proofs/OpsFacts.v — every gene an operator produces lies in the box, for every random draw (C01, concrete layer).
   NaN is excluded explicitly (a NaN arises only from a non-finite draw or an overflowing range, outside the property's domain). *)
From Coq Require Import ZArith Bool List Lia.
From HV Require Import F64 Bounds F64Facts BoundsFacts Ops ScaleFacts.
Import ListNotations.

Theorem gauss_gene_in_box x delta lo hi : fle lo hi = true -> fis_nan (gauss_gene x delta lo hi) = false -> in_box1 (gauss_gene x delta lo hi) lo hi = true.
Proof. intros Hb Hn. unfold gauss_gene in *. now apply apply_bounds_in_box. Qed.
Theorem gauss_gene_inside_unmoved x lo hi : in_box1 (fadd x (fzero false)) lo hi = true -> gauss_gene x (fzero false) lo hi = fadd x (fzero false).
Proof. intros H. unfold gauss_gene. now apply apply_bounds_fixes_inside. Qed.
Theorem uniform_gene_in_box mask sample x lo hi : in_box1 sample lo hi = true -> in_box1 x lo hi = true -> in_box1 (uniform_gene mask sample x) lo hi = true.
Proof. intros A B. unfold uniform_gene, np_where. now destruct mask. Qed.
Theorem crossover_gene_in_box v lo hi : fle lo hi = true -> fis_nan v = false -> in_box1 (crossover_gene v lo hi) lo hi = true.
Proof. intros Hb Hn. unfold crossover_gene. apply np_clip_in_box; assumption. Qed.
Theorem de_gene_in_box take donor x lo hi : fle lo hi = true -> in_box1 x lo hi = true ->
  fis_nan (apply_bounds MReflect donor lo hi) = false -> in_box1 (de_gene take donor x lo hi) lo hi = true.
Proof. intros Hb Hx Hn. unfold de_gene, np_where. destruct take; [now apply apply_bounds_in_box|exact Hx]. Qed.
Theorem sample_normal_in_box fuel draws box x : sample_normal fuel draws box = Some x -> in_box x box = true.
Proof. induction fuel as [|f IH]; simpl; [discriminate|]. destruct (in_box (draws f) box) eqn:E; [intros [= <-]; exact E|exact IH]. Qed.

(* vectors *)
Theorem gauss_vec_in_box xs : forall deltas box, length xs = length box -> length deltas = length box ->
  Forall (fun lh => fle (fst lh) (snd lh) = true) box -> Forall (fun g => fis_nan g = false) (gauss_vec xs deltas box) -> in_box (gauss_vec xs deltas box) box = true.
Proof.
  unfold gauss_vec. induction xs as [|x xs IH]; intros [|d ds] [|[lo hi] box] L1 L2 Fb Fn; simpl in *; try discriminate; auto.
  inversion Fb; subst. inversion Fn; subst. simpl in *. rewrite gauss_gene_in_box by assumption. simpl. apply IH; auto.
Qed.

(* LHS / Sobol scaling: for a box on which the largest sample below 1 lands inside (decidable, evaluated per box), EVERY sample in
   [0, 1) lands inside — monotonicity of rounding (ScaleFacts.scale_in_box) *)
Theorem scale_gene_in_box lo hi s : scale_ok lo hi = true -> fis_finite s = true -> fle (fzero false) s = true -> fle s pred_one = true ->
  in_box1 (scale_gene lo hi s) lo hi = true.
Proof.
  unfold scale_ok, scale_gene, fis_finite. intros H Fs H0 H1. repeat (apply andb_prop in H as (H & ?)).
  destruct (scale_in_box lo hi s pred_one) as (A & B & _); try assumption; try reflexivity.
  unfold in_box1. now rewrite A, B.
Qed.

(* the full per-gene pipelines (draws included) stay in the box *)
Theorem gauss_full_in_box x noise mask lo hi : fle lo hi = true -> fis_nan (gauss_full x noise mask lo hi) = false -> in_box1 (gauss_full x noise mask lo hi) lo hi = true.
Proof. unfold gauss_full. apply gauss_gene_in_box. Qed.
Theorem arith_gene_in_box a x y lo hi : fle lo hi = true -> fis_nan (arith_combine a x y) = false -> in_box1 (arith_gene a x y lo hi) lo hi = true.
Proof. unfold arith_gene. apply crossover_gene_in_box. Qed.
Theorem de_full_in_box take f r0 r1 r2 x lo hi : fle lo hi = true -> in_box1 x lo hi = true ->
  fis_nan (apply_bounds MReflect (de_donor f r0 r1 r2) lo hi) = false -> in_box1 (de_full take f r0 r1 r2 x lo hi) lo hi = true.
Proof. unfold de_full. apply de_gene_in_box. Qed.
