(* Proofs/ReportFacts.v — the report agrees with the tree (C20): totals are sums over levels and demes; the deme lines are exactly
   the root plus every deme that has run at least one metaepoch; the marker is on exactly the displayed demes whose best equals
   the global best.  For every reachable state of the HMS machine. *)
From Coq Require Import List Bool Arith ZArith Lia.
From HV Require Import Ord ListX Sprout Tree TreeLemmas TreeInv TreeRun TreeRan Report.
Import ListNotations.

Lemma kids_spec ds r ch : In ch (kids ds r) <-> ch < length ds /\ d_par (dnth ch ds) = Some r.
Proof.
  unfold kids. rewrite ids_spec. split; intros (A & B); split; auto.
  - destruct (d_par (dnth ch ds)) as [p|]; [|discriminate]. apply Nat.eqb_eq in B. now subst.
  - rewrite B. apply Nat.eqb_refl.
Qed.
Lemma dfs_sound ds : forall f r i, In i (dfs f ds r) -> i < length ds /\ 1 <= d_meta (dnth i ds).
Proof.
  induction f as [|f IH]; intros r i H; simpl in H; [destruct H|]. apply in_flat_map in H as (ch & Hk & Hi).
  destruct (Nat.eqb_spec (d_meta (dnth ch ds)) 0) as [E|N]; [destruct Hi|]. destruct Hi as [<-|Hi]; [|eauto].
  apply kids_spec in Hk. split; [tauto|lia].
Qed.
Lemma dfs_more_fuel ds : forall f r i, In i (dfs f ds r) -> In i (dfs (S f) ds r).
Proof.
  induction f as [|f IH]; intros r i H; [destruct H|]. change (dfs (S f) ds r) with (flat_map (fun ch => if Nat.eqb (d_meta (dnth ch ds)) 0 then [] else ch :: dfs f ds ch) (kids ds r)) in H.
  change (dfs (S (S f)) ds r) with (flat_map (fun ch => if Nat.eqb (d_meta (dnth ch ds)) 0 then [] else ch :: dfs (S f) ds ch) (kids ds r)).
  apply in_flat_map in H as (ch & Hk & Hi). apply in_flat_map. exists ch. split; [exact Hk|].
  destruct (Nat.eqb (d_meta (dnth ch ds)) 0); [exact Hi|]. destruct Hi as [<-|Hi]; [now left|right; now apply IH].
Qed.
Lemma dfs_fuel_le ds f g r i : f <= g -> In i (dfs f ds r) -> In i (dfs g ds r).
Proof. intros L. induction L as [|g L IH]; auto. intros Hin. apply dfs_more_fuel. auto. Qed.
Lemma dfs_kid ds r ch : ch < length ds -> d_par (dnth ch ds) = Some r -> 1 <= d_meta (dnth ch ds) -> forall f, In ch (dfs (S f) ds r).
Proof.
  intros L P M f. simpl. apply in_flat_map. exists ch. split; [apply kids_spec; auto|]. destruct (Nat.eqb_spec (d_meta (dnth ch ds)) 0); [lia|now left].
Qed.
Lemma dfs_grandkid ds : forall f r i, In i (dfs f ds r) -> forall ch, ch < length ds -> d_par (dnth ch ds) = Some i -> 1 <= d_meta (dnth ch ds) -> In ch (dfs (S f) ds r).
Proof.
  induction f as [|f IH]; intros r i H ch L P M; [destruct H|].
  change (dfs (S f) ds r) with (flat_map (fun c => if Nat.eqb (d_meta (dnth c ds)) 0 then [] else c :: dfs f ds c) (kids ds r)) in H.
  apply in_flat_map in H as (c & Hk & Hi).
  change (dfs (S (S f)) ds r) with (flat_map (fun c => if Nat.eqb (d_meta (dnth c ds)) 0 then [] else c :: dfs (S f) ds c) (kids ds r)).
  apply in_flat_map. exists c. split; [exact Hk|]. destruct (Nat.eqb (d_meta (dnth c ds)) 0); [exact Hi|]. right.
  destruct Hi as [<-|Hi]; [now apply dfs_kid|]. eapply IH; eauto.
Qed.

Section Exact.
  Variables (c : cfg) (s : st).
  Hypothesis W : WFT c s.
  Hypothesis R : RAN s.
  Let ds := demes s.

  Lemma lvl_le_idx : forall i, i < length ds -> d_lvl (dnth i ds) <= i.
  Proof.
    intros i. induction i as [i IH] using lt_wf_ind. intros Hi. destruct W as (_ & Wf). specialize (Wf i Hi). cbv zeta in Wf.
    fold ds in Wf. destruct Wf as (_ & _ & Wp). destruct (d_par (dnth i ds)) as [p|]; [|lia].
    destruct Wp as (_ & Hp & -> & _). specialize (IH p Hp ltac:(lia)). lia.
  Qed.
  Lemma shown_within_level : forall i, i < length ds -> i <> 0 -> 1 <= d_meta (dnth i ds) -> In i (dfs (d_lvl (dnth i ds)) ds 0).
  Proof.
    intros i. induction i as [i IH] using lt_wf_ind. intros Hi N0 M. destruct W as (_ & Wf). pose proof (Wf i Hi) as Wi. cbv zeta in Wi. fold ds in Wi.
    destruct Wi as (_ & _ & Wp). pose proof (R i Hi) as Ri. fold ds in Ri. destruct (d_par (dnth i ds)) as [p|] eqn:P; [|lia].
    destruct Wp as (_ & Hp & El & _). destruct Ri as (Lp & Mp). rewrite El. destruct (Nat.eq_dec p 0) as [->|Np].
    - now apply dfs_kid.
    - eapply dfs_grandkid; [apply IH; auto; lia| | |]; auto.
  Qed.

  (* the deme lines are exactly: the root, and every deme that has run at least one metaepoch *)
  Theorem lines_exact i : i < length ds -> (In i (lines ds) <-> i = 0 \/ 1 <= d_meta (dnth i ds)).
  Proof.
    intros Hi. unfold lines. simpl. split.
    - intros [<-|H]; [now left|]. right. now apply dfs_sound in H.
    - intros [->|M]; [now left|]. destruct (Nat.eq_dec i 0) as [->|N]; [now left|right].
      eapply dfs_fuel_le; [|apply shown_within_level; auto]. pose proof (lvl_le_idx i Hi). lia.
  Qed.
  Theorem lines_are_demes i : In i (lines ds) -> i < length ds.
  Proof. unfold lines. simpl. intros [<-|H]; [destruct W as (L & _); unfold ds; lia|now apply dfs_sound in H]. Qed.
End Exact.

(* each line carries its own deme's evaluation count; the marker is on exactly the displayed demes whose best equals the global best *)
Theorem line_fields ds best gb l : In l (tree_report ds best gb) ->
  In (l_deme l) (lines ds) /\ l_evals l = d_evals (dnth (l_deme l) ds) /\ (l_marked l = true <-> best (l_deme l) = gb).
Proof.
  unfold tree_report. rewrite in_map_iff. intros (i & <- & Hi). simpl. split; [exact Hi|]. split; [reflexivity|]. apply Z.eqb_eq.
Qed.
Theorem marker_exact ds best gb i : In i (lines ds) -> (exists l, In l (tree_report ds best gb) /\ l_deme l = i /\ l_marked l = true) <-> best i = gb.
Proof.
  intros Hi. split.
  - intros (l & Hl & <- & M). now apply (line_fields ds best gb l Hl).
  - intros E. exists (mk_line ds best gb i). split; [unfold tree_report; now apply in_map|]. simpl. split; [reflexivity|now apply Z.eqb_eq].
Qed.

(* totals: the tree's evaluation count and deme count are the sums over the configured levels *)
Lemma level_split (ds : list deme) H : (forall d, In d ds -> d_lvl d < H) ->
  total_evals ds = fold_right Nat.add 0 (map (level_evals ds) (seq 0 H)) /\ length ds = fold_right Nat.add 0 (map (level_count ds) (seq 0 H)).
Proof.
  induction ds as [|d ds IH]; intros Hl.
  - split; unfold level_evals, level_count, count; simpl; induction (seq 0 H); simpl; auto.
  - destruct IH as (A & B); [intros x Hx; apply Hl; now right|]. specialize (Hl d (or_introl eq_refl)).
    assert (forall (f : list deme -> nat -> nat) (g : deme -> nat),
              (forall lv, f (d :: ds) lv = (if Nat.eqb (d_lvl d) lv then g d else 0) + f ds lv) ->
              fold_right Nat.add 0 (map (f (d :: ds)) (seq 0 H)) = g d + fold_right Nat.add 0 (map (f ds) (seq 0 H))) as K.
    { intros f g Hf. assert (forall a n, d_lvl d < a + n -> a <= d_lvl d ->
          fold_right Nat.add 0 (map (f (d :: ds)) (seq a n)) = g d + fold_right Nat.add 0 (map (f ds) (seq a n))) as Q.
      { intros a n. revert a. induction n as [|n IHn]; intros a H1 H2; simpl; [lia|]. rewrite Hf.
        destruct (Nat.eqb_spec (d_lvl d) a) as [E|N].
        - assert (forall b m, d_lvl d < b -> fold_right Nat.add 0 (map (f (d :: ds)) (seq b m)) = fold_right Nat.add 0 (map (f ds) (seq b m))) as Z0.
          { intros b m. revert b. induction m as [|m IHm]; intros b Hb; simpl; auto. rewrite Hf, IHm by lia. destruct (Nat.eqb_spec (d_lvl d) b); lia. }
          rewrite Z0 by lia. lia.
        - rewrite IHn by lia. lia. }
      apply Q; lia. }
    split.
    + simpl. rewrite A. symmetry. apply (K level_evals d_evals). intros lv. unfold level_evals. simpl. destruct (Nat.eqb (d_lvl d) lv); reflexivity.
    + simpl. rewrite B. symmetry. rewrite (K level_count (fun _ => 1)); [reflexivity|]. intros lv. unfold level_count, count. simpl. destruct (Nat.eqb (d_lvl d) lv); reflexivity.
Qed.
Theorem summary_totals c n0 s : 1 <= height c -> reach c n0 s ->
  let r := summary (height c) s in
  s_meta r = mcount s /\ s_evals r = clock s /\ s_demes r = length (demes s) /\
  s_evals r = fold_right Nat.add 0 (map fst (s_levels r)) /\ s_demes r = fold_right Nat.add 0 (map snd (s_levels r)).
Proof.
  intros Hh Rc. destruct (reach_INV c n0 s Hh Rc) as (_ & C & Wf & _). simpl. split; [reflexivity|]. split; [exact C|]. split; [reflexivity|].
  rewrite !map_map. simpl. apply level_split. intros d Hd. apply In_nth with (d := root_deme 0) in Hd as (i & Hi & <-).
  destruct Wf as (_ & Wf). exact (proj1 (Wf i Hi)).
Qed.

(* ---------------------------------------------------------------- no deme is printed twice *)
Fixpoint up (ds : list deme) (i k : nat) : option nat :=
  match k with O => Some i | S k' => match d_par (dnth i ds) with Some p => up ds p k' | None => None end end.

Section Once.
  Variables (c : cfg) (s : st).
  Hypothesis W : WFT c s.
  Let ds := demes s.

  Lemma up_level : forall k i a, i < length ds -> up ds i k = Some a -> a < length ds /\ d_lvl (dnth i ds) = d_lvl (dnth a ds) + k.
  Proof.
    induction k as [|k IH]; intros i a Hi H; simpl in H; [injection H as <-; split; [assumption|lia]|].
    destruct W as (_ & Wf). pose proof (Wf i Hi) as Wi. cbv zeta in Wi. fold ds in Wi. destruct Wi as (_ & _ & Wp).
    destruct (d_par (dnth i ds)) as [p|]; [|discriminate]. destruct Wp as (_ & Hp & El & _).
    destruct (IH p a ltac:(lia) H) as (A & B). split; [exact A|lia].
  Qed.
  Lemma dfs_up : forall f r i, In i (dfs f ds r) -> exists k, up ds i (S k) = Some r.
  Proof.
    induction f as [|f IH]; intros r i H; simpl in H; [destruct H|]. apply in_flat_map in H as (ch & Hk & Hi).
    apply kids_spec in Hk as (Hc & Pc). destruct (Nat.eqb (d_meta (dnth ch ds)) 0); [destruct Hi|]. destruct Hi as [<-|Hi].
    - exists 0. simpl. now rewrite Pc.
    - destruct (IH ch i Hi) as (k & Hk). exists (S k). revert Hk. clear - Pc. revert i. induction (S k) as [|m IHm]; intros i Hk; simpl in *.
      + injection Hk as ->. now rewrite Pc.
      + destruct (d_par (dnth i ds)) as [p|]; [|discriminate]. apply IHm. exact Hk.
  Qed.
  Lemma up_unique i k k' a b : i < length ds -> up ds i k = Some a -> up ds i k' = Some b -> d_lvl (dnth a ds) = d_lvl (dnth b ds) -> a = b.
  Proof.
    intros Hi Ha Hb El. destruct (up_level k i a Hi Ha) as (_ & La). destruct (up_level k' i b Hi Hb) as (_ & Lb).
    assert (k = k') as -> by lia. congruence.
  Qed.
  Lemma kids_NoDup r : NoDup (kids ds r).
  Proof. unfold kids. apply ids_NoDup. Qed.

  Theorem dfs_NoDup : forall f r, r < length ds -> NoDup (dfs f ds r).
  Proof.
    induction f as [|f IH]; intros r Hr; simpl; [constructor|].
    assert (forall l, NoDup l -> (forall ch, In ch l -> In ch (kids ds r)) ->
            NoDup (flat_map (fun ch => if Nat.eqb (d_meta (dnth ch ds)) 0 then [] else ch :: dfs f ds ch) l)) as K.
    { induction l as [|ch l IHl]; intros ND Hin; simpl; [constructor|]. inversion ND as [|? ? Hni ND']; subst.
      pose proof (proj1 (kids_spec ds r ch) (Hin ch (or_introl eq_refl))) as (Hc & Pc).
      apply NoDup_app_intro.
      - destruct (Nat.eqb (d_meta (dnth ch ds)) 0); [constructor|]. constructor; [|now apply IH].
        intros Hs. apply dfs_up in Hs as (k & Hk). destruct (up_level (S k) ch ch Hc Hk) as (_ & L). lia.
      - apply IHl; [exact ND'|intros x Hx; apply Hin; now right].
      - (* a deme of ch's subtree is not in a sibling's subtree *)
        intros x Hx Hx'. apply in_flat_map in Hx' as (ch' & Hch' & Hx').
        pose proof (proj1 (kids_spec ds r ch') (Hin ch' (or_intror Hch'))) as (Hc' & Pc').
        assert (ch <> ch') as Ne by (intros ->; contradiction).
        assert (d_lvl (dnth ch ds) = d_lvl (dnth ch' ds)) as El.
        { destruct W as (_ & Wf). pose proof (Wf ch Hc) as A. pose proof (Wf ch' Hc') as B. cbv zeta in A, B. fold ds in A, B.
          rewrite Pc in A. rewrite Pc' in B. destruct A as (_ & _ & _ & _ & -> & _), B as (_ & _ & _ & _ & -> & _). reflexivity. }
        assert (exists k, up ds x k = Some ch) as (k & Uk).
        { destruct (Nat.eqb (d_meta (dnth ch ds)) 0); [destruct Hx|]. destruct Hx as [<-|Hx]; [exists 0; reflexivity|].
          destruct (dfs_up _ _ _ Hx) as (k & Hk). eauto. }
        assert (exists k, up ds x k = Some ch') as (k' & Uk').
        { destruct (Nat.eqb (d_meta (dnth ch' ds)) 0); [destruct Hx'|]. destruct Hx' as [<-|Hx']; [exists 0; reflexivity|].
          destruct (dfs_up _ _ _ Hx') as (k' & Hk'). eauto. }
        assert (x < length ds) as Hxl.
        { destruct (Nat.eqb (d_meta (dnth ch ds)) 0); [destruct Hx|]. destruct Hx as [<-|Hx]; [assumption|]. now apply dfs_sound in Hx. }
        apply Ne. eapply up_unique; eauto. }
    apply K; [apply kids_NoDup|auto].
  Qed.
  (* every displayed deme is displayed exactly once *)
  Theorem lines_NoDup : NoDup (lines ds).
  Proof.
    unfold lines. destruct W as (L & _). fold ds in L. constructor; [|apply dfs_NoDup; lia].
    intros H. apply dfs_up in H as (k & Hk). destruct (up_level (S k) 0 0 ltac:(lia) Hk) as (_ & E). lia.
  Qed.
End Once.
