(* Proofs/FilterFacts.v — DemeLimit, chains of removing filters, SkipSameSprout on an abstract closeness verdict (C10, C13). *)
From Coq Require Import ZArith List Bool Arith Lia Permutation Sorting.
From HV Require Import Ord ListX Sprout SproutFacts Select SelectFacts.
Import ListNotations.
Local Open Scope Z_scope.

Lemma un_good_good mx k : un_good mx (good mx k) = k.
Proof. destruct mx; simpl; lia. Qed.
Lemma good_un_good mx g : good mx (un_good mx g) = g.
Proof. destruct mx; simpl; lia. Qed.
Lemma map_un_good_good mx ks : map (un_good mx) (map (good mx) ks) = ks.
Proof. rewrite map_map. rewrite <- (map_id ks) at 2. apply map_ext. intros; apply un_good_good. Qed.

(* DemeLimit keeps exactly min(limit, available) candidates, only removes, and never drops a candidate strictly better than
   one it keeps *)
Theorem deme_limit_spec mx limit ks :
  length (deme_limit mx limit ks) = Nat.min limit (length ks) /\
  exists dropped, Permutation ks (deme_limit mx limit ks ++ dropped) /\
                  forall a d, In a (deme_limit mx limit ks) -> In d dropped -> better mx d a = false.
Proof.
  unfold deme_limit. destruct (Nat.ltb_spec limit (length ks)) as [Hlt|Hge].
  - set (s := sort_good (map (good mx) ks)).
    assert (length s = length ks) as Ls by (unfold s; now rewrite sort_good_length, map_length).
    split; [rewrite map_length, firstn_length; lia|].
    exists (map (un_good mx) (skipn limit s)). split.
    + rewrite <- map_app, firstn_skipn. rewrite <- (map_un_good_good mx ks) at 1. apply Permutation_map. apply sort_good_perm.
    + intros a d Ha Hd. apply in_map_iff in Ha as (ga & <- & Ha). apply in_map_iff in Hd as (gd & <- & Hd).
      apply better_false_le. rewrite !good_un_good.
      pose proof (sort_good_sorted (map (good mx) ks)) as S. fold s in S. rewrite <- (firstn_skipn limit s) in S.
      exact (sorted_app_le _ _ S ga gd Ha Hd).
  - split; [lia|]. exists []. rewrite app_nil_r. split; [reflexivity|]. intros a d _ [].
Qed.
Theorem deme_limit_mirror limit ks : deme_limit true limit ks = neg (deme_limit false limit (neg ks)).
Proof.
  unfold deme_limit, neg. rewrite map_length. destruct (limit <? length ks)%nat.
  - rewrite !map_map. change (fun x => good false (- x)) with (fun x => good true x). apply map_ext. intros; simpl; lia.
  - rewrite map_map. rewrite <- (map_id ks) at 1. apply map_ext. intros; lia.
Qed.

(* any chain of removing filters (verdict masks) only removes: every survivor was a candidate, per parent *)
Fixpoint mask_chain (c : cmap) (chain : list (list (list bool))) : cmap :=
  match chain with [] => c | ms :: r => mask_chain (mask_cmap c ms) r end.
Lemma mask_cmap_incl c : forall ms p ks, In (p, ks) (mask_cmap c ms) -> exists ks0, In (p, ks0) c /\ incl ks ks0.
Proof.
  induction c as [|[q qs] c IH]; intros [|m ms] p ks H; simpl in H; try contradiction.
  destruct H as [E|H].
  - injection E as <- <-. exists qs. split; [now left|]. intros k Hk. eapply mask_keys_incl; eauto.
  - destruct (IH ms p ks H) as (ks0 & I & S). exists ks0. split; [now right|exact S].
Qed.
Theorem filters_only_remove chain : forall c p ks, In (p, ks) (mask_chain c chain) -> exists ks0, In (p, ks0) c /\ incl ks ks0.
Proof.
  induction chain as [|ms r IH]; intros c p ks H; simpl in H.
  - exists ks. split; [exact H|apply incl_refl].
  - destruct (IH _ p ks H) as (k1 & I1 & S1). destruct (mask_cmap_incl c ms p k1 I1) as (k0 & I0 & S0).
    exists k0. split; [exact I0|]. eapply incl_tran; eauto.
Qed.

(* SkipSameSprout on an abstract closeness verdict (np.isclose, all coordinates): a candidate is dropped iff it is close to a
   seed of a child of some deme of the parent's level — provided the parent itself has children *)
Section SkipSame.
  Context {C S : Type} (close : C -> S -> bool).
  Definition skip_same (has_children : bool) (level_seeds : list S) (cands : list C) : list C :=
    if has_children then filter (fun c => negb (existsb (close c) level_seeds)) cands else cands.
  Theorem skip_same_only_removes hc seeds cands c : In c (skip_same hc seeds cands) -> In c cands.
  Proof. unfold skip_same. destruct hc; [|auto]. intros H. now apply filter_In in H. Qed.
  (* soundness: with children, no survivor is close to any seed of the level — in particular to none of its own parent's *)
  Theorem skip_same_sound seeds own cands c s : incl own seeds -> own <> [] ->
    In c (skip_same (negb (Nat.eqb (length own) 0)) seeds cands) -> In s own -> close c s = false.
  Proof.
    intros Hi Hne Hc Hs. unfold skip_same in Hc. destruct own as [|o own']; [congruence|]. simpl in Hc.
    apply filter_In in Hc as (_ & Hc). apply negb_true_iff in Hc.
    destruct (close c s) eqn:E; [|reflexivity]. exfalso.
    assert (existsb (close c) seeds = true) as X by (apply existsb_exists; exists s; split; [now apply Hi|exact E]). congruence.
  Qed.
  (* completeness: a candidate close to no seed of the target level survives *)
  Theorem skip_same_complete hc seeds cands c : In c cands -> (forall s, In s seeds -> close c s = false) -> In c (skip_same hc seeds cands).
  Proof.
    intros Hc Hn. unfold skip_same. destruct hc; [|exact Hc]. apply filter_In. split; [exact Hc|].
    apply negb_true_iff. destruct (existsb (close c) seeds) eqn:E; [|reflexivity]. apply existsb_exists in E as (s & Hs & Hcs).
    rewrite (Hn s Hs) in Hcs. discriminate.
  Qed.
End SkipSame.

(* BestPerDeme offers exactly the first best of the current population *)
Theorem best_per_deme_spec mx pop b : best_of mx pop = Some b -> In b pop /\ forall x, In x pop -> better mx x b = false.
Proof. exact (best_of_spec mx pop b). Qed.
