(* Proofs/F64Facts.v — order facts about binary64 comparisons (Flocq Bleb/Bltb), all values. *)
From Coq Require Import ZArith Bool Lia Reals Lra.
From Flocq Require Import Core.Core IEEE754.BinarySingleNaN.
From HV Require Import F64.

Lemma sfcompare_refl (x : f64) : fis_nan x = false -> SpecFloat.SFcompare (B2SF x) (B2SF x) = Some Eq.
Proof.
  destruct x as [s|s| |s m e H]; simpl; intros Hn; try discriminate; try (destruct s; reflexivity).
  destruct s; rewrite Z.compare_refl, Pos.compare_cont_refl; reflexivity.
Qed.

Lemma fle_refl (x : f64) : fis_nan x = false -> fle x x = true.
Proof. intros H. unfold fle, Bleb, SpecFloat.SFleb. now rewrite sfcompare_refl. Qed.

Lemma fle_not_nan_l (x y : f64) : fle x y = true -> fis_nan x = false.
Proof. unfold fle, Bleb, SpecFloat.SFleb. destruct x; simpl; try reflexivity. discriminate. Qed.
Lemma fle_not_nan_r (x y : f64) : fle x y = true -> fis_nan y = false.
Proof. unfold fle, Bleb, SpecFloat.SFleb. destruct x, y; simpl; try reflexivity; discriminate. Qed.

Lemma sfcompare_antisym (a b : f64) c : SpecFloat.SFcompare (B2SF a) (B2SF b) = Some c ->
   SpecFloat.SFcompare (B2SF b) (B2SF a) = Some (CompOpp c).
Proof.
  destruct a as [sa|sa| |sa ma ea Ha], b as [sb|sb| |sb mb eb Hb]; simpl; intros H; try discriminate;
  try (injection H as <-).
  all: try (destruct sa; reflexivity); try (destruct sb; reflexivity); try (destruct sa, sb; reflexivity).
  destruct sa, sb; try reflexivity.
  - rewrite (Z.compare_antisym ea eb). destruct (ea ?= eb)%Z; simpl; try reflexivity.
    now rewrite (Pos.compare_cont_antisym ma mb Eq).
  - rewrite (Z.compare_antisym ea eb). destruct (ea ?= eb)%Z; simpl; try reflexivity.
    now rewrite (Pos.compare_cont_antisym ma mb Eq).
Qed.
Lemma sfcompare_some (a b : f64) : fis_nan a = false -> fis_nan b = false -> exists c, SpecFloat.SFcompare (B2SF a) (B2SF b) = Some c.
Proof. destruct a, b; simpl; intros; try discriminate; eexists; reflexivity. Qed.
Lemma fle_total (a b : f64) : fis_nan a = false -> fis_nan b = false -> fle a b = false -> fle b a = true.
Proof.
  intros Na Nb. destruct (sfcompare_some a b Na Nb) as [c Hc].
  unfold fle, Bleb, SpecFloat.SFleb. rewrite Hc, (sfcompare_antisym _ _ _ Hc). destruct c; simpl; congruence.
Qed.
Lemma flt_fle_false (a b : f64) : flt a b = true -> fle b a = false /\ fis_nan a = false /\ fis_nan b = false.
Proof.
  unfold flt, fle, Bltb, Bleb, SpecFloat.SFltb, SpecFloat.SFleb.
  destruct (SpecFloat.SFcompare (B2SF a) (B2SF b)) as [c|] eqn:Hc; [|discriminate].
  rewrite (sfcompare_antisym _ _ _ Hc). destruct c; try discriminate. intros _. simpl. split; [reflexivity|].
  destruct a, b; simpl in *; try discriminate; auto.
Qed.
(* transitivity via reals is avoided: a direct structural proof on the comparison *)
Lemma fle_ninf_l (c : f64) : fis_nan c = false -> fle (B754_infinity true) c = true.
Proof. destruct c as [s|s| |s m e H]; simpl; try discriminate; intros _; try reflexivity; destruct s; reflexivity. Qed.
Lemma fle_pinf_r (a : f64) : fis_nan a = false -> fle a (B754_infinity false) = true.
Proof. destruct a as [s|s| |s m e H]; simpl; try discriminate; intros _; try reflexivity; destruct s; reflexivity. Qed.
Lemma fle_pinf_l (b : f64) : fle (B754_infinity false) b = true -> b = B754_infinity false.
Proof. destruct b as [s|s| |s m e H]; unfold fle, Bleb; simpl; try discriminate. all: destruct s; simpl; try discriminate; reflexivity. Qed.
Lemma fle_ninf_r (b : f64) : fle b (B754_infinity true) = true -> b = B754_infinity true.
Proof. destruct b as [s|s| |s m e H]; unfold fle, Bleb; simpl; try discriminate. all: destruct s; simpl; try discriminate; reflexivity. Qed.
Lemma not_finite_cases (x : f64) : fis_finite x = false -> x = B754_infinity true \/ x = B754_infinity false \/ x = B754_nan.
Proof. destruct x as [s|s| |s m e H]; simpl; try discriminate; auto. destruct s; auto. Qed.
Lemma fle_trans (a b c : f64) : fle a b = true -> fle b c = true -> fle a c = true.
Proof.
  intros H1 H2.
  pose proof (fle_not_nan_l _ _ H1) as Na. pose proof (fle_not_nan_r _ _ H1) as Nb. pose proof (fle_not_nan_r _ _ H2) as Nc.
  destruct (fis_finite a) eqn:Fa.
  2:{ destruct (not_finite_cases _ Fa) as [->|[->| ->]]; [now apply fle_ninf_l| |discriminate].
      apply fle_pinf_l in H1. subst b. apply fle_pinf_l in H2. subst c. reflexivity. }
  destruct (fis_finite c) eqn:Fc.
  2:{ destruct (not_finite_cases _ Fc) as [->|[->| ->]]; [| now apply fle_pinf_r|discriminate].
      apply fle_ninf_r in H2. subst b. apply fle_ninf_r in H1. subst a. reflexivity. }
  destruct (fis_finite b) eqn:Fb.
  2:{ destruct (not_finite_cases _ Fb) as [->|[->| ->]]; [| |discriminate].
      - apply fle_ninf_r in H1. subst a. discriminate.
      - apply fle_pinf_l in H2. subst c. discriminate. }
  unfold fle in *. rewrite Bleb_correct in * by assumption.
  revert H1 H2. do 2 case Rle_bool_spec; try discriminate. intros Hbc Hab _ _. apply Rle_bool_true. lra.
Qed.
