(* Proofs/GenEquivMechanism.v — SproutMechanism.get_seeds TRANSLATED from the current pyhms/sprout/sprout_mechanisms.py (Gen/GenMechanism.v):
   generator, then the deme-level chain, then the tree-level chain, then the parents left with at least one seed.  Instantiated with the
   translated BestPerDeme / FarEnough / LevelLimit (get_simple_sprout) it returns exactly the seeds the machine's sprouting step uses. *)
From Coq Require Import List Bool Arith ZArith Lia.
From HV Require Import Ord ListX Sprout Tree TreeLemmas TreeInv DriverPrim SproutPrim Driver DriverFacts GenEquivDriver GenEquivStops FilterDict Far FarFacts.
From HV Require Import GenLevelLimit GenEquivLevelLimit GenFar GenEquivFar GenGenerators GenEquivGenerators GenMechanism.
Import ListNotations.

Section Chain.
  Variables (F : Type) (generator : D cmap) (apply_filter : F -> cmap -> D cmap).
  Variable app : F -> st -> cmap -> cmap.     (* what each configured filter returns, as a function of the state it looks at *)
  Hypothesis filters_answer : forall f cm s, answers (apply_filter f cm) s (app f (ms s) cm).

  Lemma chain_answers : forall chain cm s, answers (forl_ chain (fun cm f => apply_filter f cm) cm) s (fold_left (fun cm f => app f (ms s) cm) chain cm).
  Proof.
    induction chain as [|f r IH]; intros cm s evs; [reflexivity|]. cbn [forl_ fold_left]. unfold bind. rewrite (filters_answer f cm s evs). apply IH.
  Qed.
  Definition keep_nonempty (cm : cmap) : cmap := filter (fun kv => negb (match cm_get cm (fst kv) with [] => true | _ => false end)) cm.
  Theorem get_seeds_ok dchain tchain cm0 s : answers generator s cm0 ->
    answers (gen_get_seeds F generator apply_filter dchain tchain) s
            (keep_nonempty (fold_left (fun cm f => app f (ms s) cm) tchain (fold_left (fun cm f => app f (ms s) cm) dchain cm0))).
  Proof.
    intros G evs. unfold gen_get_seeds, gen_apply_deme_filters, gen_apply_tree_filters, bind. rewrite (G evs).
    rewrite (chain_answers dchain cm0 s evs), (chain_answers tchain _ s evs). reflexivity.
  Qed.
End Chain.

Lemma keep_nonempty_eq cm : NoDup (cm_keys cm) -> keep_nonempty cm = nonempty cm.
Proof.
  intros N. unfold keep_nonempty, nonempty. apply filter_ext_in. intros pk Hpk. rewrite (cm_get_in cm pk N Hpk). now destruct (snd pk).
Qed.
Lemma mask_all_true (c0 : cmap) : mask_cmap c0 (map (fun pk => map (fun _ => true) (snd pk)) c0) = c0.
Proof.
  induction c0 as [|[p ks] r IH]; [reflexivity|]. cbn [map mask_cmap snd]. rewrite IH. f_equal. f_equal.
  induction ks as [|k ks IHk]; [reflexivity|]. cbn. now rewrite IHk.
Qed.

(* ---------------------------------------------------------------- get_simple_sprout(far_enough, level_limit) *)
Inductive simple_filter := FFar (thr : Z) | FLevelLimit (L : nat).
Section Simple.
  Variables (cur_best : nat -> Z) (dist : Z -> nat -> Z) (c : cfg) (fuel : nat).
  Definition simple_apply (f : simple_filter) (cm : cmap) : D cmap :=
    match f with FFar thr => gen_FarEnough dist c fuel thr cm | FLevelLimit L => gen_LevelLimit c fuel L cm end.
  (* the candidates after the deme-level chain: per active non-leaf deme its current best, unless it is too close to an active deme below *)
  Definition simple_cands (thr : Z) (m : st) : cmap :=
    map (fun pk => (fst pk, far_filter dist (act_of (demes m)) true thr (level_ids (demes m) (lvl_at (demes m) (fst pk) + 1)) (snd pk)))
        (map (fun d => (d, [cur_best d])) (active_non_leaves c (demes m))).
  Lemma simple_cands_keys thr m : cm_keys (simple_cands thr m) = active_non_leaves c (demes m).
  Proof. unfold simple_cands, cm_keys. rewrite !map_map. cbn [fst]. apply map_id. Qed.

  Theorem simple_sprout_seeds thr L s :
    answers (gen_get_seeds simple_filter (gen_BestPerDeme cur_best c fuel) simple_apply [FFar thr] [FLevelLimit L]) s
            (nonempty (level_limit (maximize c) L (lvl_at (demes (ms s))) (active_at (demes (ms s))) (simple_cands thr (ms s)))).
  Proof.
    intros evs. unfold gen_get_seeds, gen_apply_deme_filters, gen_apply_tree_filters, bind. rewrite (BestPerDeme_ok cur_best c fuel s evs).
    cbn [forl_ simple_apply]. unfold bind.
    rewrite (FarEnough_ok dist c fuel thr _ s (generator_parents_distinct (fun d => [cur_best d]) c (demes (ms s))) evs). cbn [ret].
    fold (simple_cands thr (ms s)).
    assert (N : NoDup (cm_keys (simple_cands thr (ms s)))).
    { rewrite simple_cands_keys, active_non_leaves_spec. apply level_order_NoDup. }
    assert (V : forall pk, In pk (simple_cands thr (ms s)) -> S (lvl_at (demes (ms s)) (fst pk)) < height c).
    { intros pk Hpk. assert (Hk : In (fst pk) (cm_keys (simple_cands thr (ms s)))) by (now apply in_map).
      rewrite simple_cands_keys in Hk. now apply active_non_leaves_in in Hk as (_ & _ & H). }
    rewrite (LevelLimit_ok c fuel L _ s N V evs). unfold ret. f_equal. f_equal. f_equal.
    fold (keep_nonempty (level_limit (maximize c) L (lvl_at (demes (ms s))) (active_at (demes (ms s))) (simple_cands thr (ms s)))).
    apply keep_nonempty_eq. unfold cm_keys. rewrite level_limit_fst. exact N.
  Qed.

  (* ... which is what the machine's sprouting step works with: the primitive p_get_seeds, fed the candidates that left the deme-level chain
     and no further removing filter, returns the very same dictionary *)
  Theorem simple_sprout_is_p_get_seeds thr L m p inits evs :
    level_lim c = Some L ->
    let cands := simple_cands thr m in
    let post := map (fun pk => map (fun _ => true) (snd pk)) (level_limit (maximize c) L (lvl_at (demes m)) (active_at (demes m)) cands) in
    forall sd s' r, p_get_seeds c (mk m p) (ESprout cands post inits :: evs) = Some (sd, s', r) ->
    sd = nonempty (level_limit (maximize c) L (lvl_at (demes m)) (active_at (demes m)) cands).
  Proof.
    intros HL cands post sd s' r H. unfold p_get_seeds in H. cbn [ms mk] in H. rewrite HL in H.
    fold (lvl_at (demes m)) in H. change (fun i : nat => d_lvl (dnth i (demes m))) with (lvl_at (demes m)) in H.
    destruct (negb _ || _ || _); [discriminate|]. injection H as <- _ _. unfold post. now rewrite mask_all_true.
  Qed.
End Simple.
