(* Proofs/DriverFacts.v — every execution of the big-step driver programs (Model/Driver.v, proved equal to the programs translated
   from pyhms/tree.py and the deme classes) is a run accepted by the small-step machine of Model/Tree.v, with the same final
   state.  Hence every theorem about all accepted runs (INV and its corollaries: C03, C05, C06, C07, C08, C18, C19, C20) holds
   of the translated code. *)
From Coq Require Import List Bool Arith ZArith Lia.
From HV Require Import Ord ListX Sprout Tree TreeLemmas TreeInv TreeRun DriverPrim Driver.
Import ListNotations.

Definition mk (m : st) (p : list nat) : dst := {| ms := m; pend := p |}.

Lemma set_pc_set_pc s a b : set_pc (set_pc s a) b = set_pc s b.
Proof. destruct s; reflexivity. Qed.
Lemma set_pc_same s : set_pc s (pc s) = s.
Proof. destruct s; reflexivity. Qed.
Lemma demes_set_pc s a : demes (set_pc s a) = demes s. Proof. reflexivity. Qed.
Lemma set_demes_set_pc s ds a : set_demes (set_pc s a) ds = set_pc (set_demes s ds) a. Proof. reflexivity. Qed.
Lemma finish_set_pc c t s a : finish c t (set_pc s a) = finish c t s.
Proof. unfold finish, begin_deme. destruct t; rewrite ?set_pc_set_pc; reflexivity. Qed.

Lemma finish_pc_irrel c t s s' : set_pc s PMain = set_pc s' PMain -> finish c t s = finish c t s'.
Proof. intros H. rewrite <- (finish_set_pc c t s PMain), <- (finish_set_pc c t s' PMain). now rewrite H. Qed.

Lemma bind_inv {A B} (m : D A) (f : A -> D B) s evs r :
  bind m f s evs = Some r -> exists a s1 evs1, m s evs = Some (a, s1, evs1) /\ f a s1 evs1 = Some r.
Proof. unfold bind. destruct (m s evs) as [[[a s1] evs1]|]; [|discriminate]. intros H. now exists a, s1, evs1. Qed.

Ltac binv H :=
  let a := fresh "a" in let s1 := fresh "s" in let e1 := fresh "evs" in let H1 := fresh "H" in
  apply bind_inv in H as (a & s1 & e1 & H1 & H).

(* gsc / lsc verdicts do not look at the control point *)
Lemma gsc_eval_set_pc g H s a : gsc_eval g H (set_pc s a) = gsc_eval g H s.
Proof. induction g; simpl; try reflexivity. now rewrite IHg1, IHg2. Qed.

(* the level (hence kind, generations, lsc) of a deme is not changed by the updates a deme run makes *)
Lemma lvl_upd d i f ds : (forall x, d_lvl (f x) = d_lvl x) -> d_lvl (dnth d (upd i f ds)) = d_lvl (dnth d ds).
Proof. intros Hf. rewrite dnth_upd. destruct (_ && _); auto. Qed.
Lemma lvl_add_evals n k x : d_lvl (add_evals n k x) = d_lvl x. Proof. reflexivity. Qed.
Lemma lvl_append_meta x : d_lvl (append_meta x) = d_lvl x. Proof. reflexivity. Qed.
Lemma lvl_deactivate x : d_lvl (deactivate x) = d_lvl x. Proof. reflexivity. Qed.

(* ---------------------------------------------------------------- inversion of the primitives *)
Definition seen_or (m : st) (v : bool) : st :=
  with_state m (mcount m) (demes m) (pc m) (seen m || v) (steps m) (clock m) (born_after_seen m) (last_round m).
Definition gen_st (m : st) (d n : nat) : st :=
  with_state m (mcount m) (upd d (add_evals n (b2n (seen m))) (demes m)) (pc m) (seen m) (steps m) (clock m + n) (born_after_seen m) (last_round m).

Lemma p_gsc_inv c m p evs v s1 r :
  p_gsc c (mk m p) evs = Some (v, s1, r) ->
  evs = EGsc v :: r /\ s1 = mk (seen_or m v) p /\
  (negb (consistent (gsc_eval (gsc c) (height c) m) v) || (seen m && negb v)) = false.
Proof.
  unfold p_gsc. destruct evs as [|[w| | | | |] r']; try discriminate. cbn [ms].
  destruct (negb _ || _) eqn:E; [discriminate|]. intros H. injection H as <- <- <-. auto.
Qed.
Lemma p_lsc_inv c d m p evs v s1 r :
  p_lsc c d (mk m p) evs = Some (v, s1, r) ->
  evs = ELsc v :: r /\ s1 = mk m p /\ negb (consistent (lsc_eval (lsc_of c (d_lvl (dnth d (demes m)))) d (demes m)) v) = false.
Proof.
  unfold p_lsc, deme_of. destruct evs as [|[| |w| | |] r']; try discriminate. cbn [ms].
  destruct (negb _) eqn:E; [discriminate|]. intros H. injection H as <- <- <-. auto.
Qed.
Lemma p_cma_inv m p evs v s1 r : p_cma_stop (mk m p) evs = Some (v, s1, r) -> evs = ECma v :: r /\ s1 = mk m p.
Proof. unfold p_cma_stop. destruct evs as [|[| | |w| |] r']; try discriminate. intros H. injection H as <- <- <-. auto. Qed.
Lemma p_iter_inv d m p evs s1 r : p_engine_iter d (mk m p) evs = Some (tt, s1, r) -> exists n, evs = EGen n :: r /\ s1 = mk (gen_st m d n) p.
Proof. unfold p_engine_iter. destruct evs as [|[|n| | | |] r']; try discriminate. intros H. injection H as <- <-. now exists n. Qed.


(* what a deme's run never changes: the level and the hibernation flag of every deme (and the number of demes) *)
Definition shape (m : st) : list (nat * bool) := map (fun x => (d_lvl x, d_hib x)) (demes m).
Lemma map_upd_inv {B} (g : deme -> B) i f ds : (forall x, g (f x) = g x) -> map g (upd i f ds) = map g ds.
Proof. intros Hf. revert i; induction ds as [|x r IH]; intros [|i]; simpl; rewrite ?Hf, ?IH; reflexivity. Qed.
Lemma shape_lvl d m m' : shape m' = shape m -> d_lvl (dnth d (demes m')) = d_lvl (dnth d (demes m)).
Proof.
  unfold shape, dnth. intros H. assert (E : map d_lvl (demes m') = map d_lvl (demes m)).
  { transitivity (map fst (map (fun x => (d_lvl x, d_hib x)) (demes m'))); [now rewrite map_map|]. rewrite H. now rewrite map_map. }
  rewrite <- !(map_nth d_lvl). now rewrite E.
Qed.
Lemma shape_hib d m m' : shape m' = shape m -> d_hib (dnth d (demes m')) = d_hib (dnth d (demes m)).
Proof.
  unfold shape, dnth. intros H. assert (E : map d_hib (demes m') = map d_hib (demes m)).
  { transitivity (map snd (map (fun x => (d_lvl x, d_hib x)) (demes m'))); [now rewrite map_map|]. rewrite H. now rewrite map_map. }
  rewrite <- !(map_nth d_hib). now rewrite E.
Qed.
Lemma shape_length m m' : shape m' = shape m -> length (demes m') = length (demes m).
Proof. unfold shape. intros H. apply (f_equal (@length _)) in H. now rewrite !map_length in H. Qed.
Lemma shape_gen_st m d n : shape (gen_st m d n) = shape m.
Proof. unfold shape, gen_st. cbn [demes with_state]. apply map_upd_inv. reflexivity. Qed.
Lemma shape_seen_or m v : shape (seen_or m v) = shape m. Proof. reflexivity. Qed.

(* ---------------------------------------------------------------- one deme's metaepoch *)
Section DemeSim.
  Variables (c : cfg) (t : list nat) (d : nat).
  Definition at_ (m : st) (g : nat) (sub : dsub) : st := set_pc m (PDeme t d g sub).
  Definition lvl (m : st) : nat := d_lvl (dnth d (demes m)).
  Definition app_meta (m : st) : st := set_demes m (upd d append_meta (demes m)).
  Definition deact (m : st) : st := set_demes m (upd d deactivate (demes m)).

  Lemma lvl_gen_st m n : lvl (gen_st m d n) = lvl m.
  Proof. unfold lvl, gen_st. cbn [demes with_state]. apply lvl_upd. reflexivity. Qed.
  Lemma lvl_seen_or m v : lvl (seen_or m v) = lvl m. Proof. reflexivity. Qed.
  Lemma lvl_app_meta m : lvl (app_meta m) = lvl m.
  Proof. unfold lvl, app_meta. cbn [demes set_demes with_state]. apply lvl_upd. reflexivity. Qed.
  Lemma shape_app_meta m : shape (app_meta m) = shape m.
  Proof. unfold shape, app_meta. cbn [demes set_demes with_state]. apply map_upd_inv. reflexivity. Qed.
  Lemma shape_deact m : shape (deact m) = shape m.
  Proof. unfold shape, deact. cbn [demes set_demes with_state]. apply map_upd_inv. reflexivity. Qed.

  Lemma step_gen m g n : kind_of c (lvl m) <> KSampler -> step c (at_ m g SGen) (EGen n) = Some (at_ (gen_st m d n) (S g) SGsc).
  Proof. intros K. unfold step, at_, lvl in *. cbn [pc set_pc with_state demes]. destruct (kind_of c _); try congruence; reflexivity. Qed.
  Lemma step_gen_sampler m g n : kind_of c (lvl m) = KSampler -> step c (at_ m g SGen) (EGen n) = Some (at_ (app_meta (gen_st m d n)) (S g) SGsc).
  Proof. intros K. unfold step, at_, lvl in *. cbn [pc set_pc with_state demes]. rewrite K. reflexivity. Qed.

  (* the consult after an engine iteration *)
  Lemma step_gsc_true m g :
    (negb (consistent (gsc_eval (gsc c) (height c) m) true) || (seen m && negb true)) = false -> kind_of c (lvl m) <> KSampler ->
    step c (at_ m g SGsc) (EGsc true) = Some (finish c t (deact (app_meta (seen_or m true)))).
  Proof.
    intros G K. unfold step, at_. cbn [pc set_pc with_state demes]. rewrite gsc_eval_set_pc. fold (set_pc m (PDeme t d g SGsc)).
    cbn [seen set_pc with_state]. rewrite G. fold (lvl m). destruct (kind_of c (lvl m)); try congruence;
    (etransitivity; [|apply f_equal, finish_set_pc]; reflexivity).
  Qed.

  Lemma step_gsc_false_pop m g :
    (negb (consistent (gsc_eval (gsc c) (height c) m) false) || (seen m && negb false)) = false -> kind_of c (lvl m) = KPop ->
    step c (at_ m g SGsc) (EGsc false) =
    Some (if g <? gens_of c (lvl m) then at_ (seen_or m false) g SGen else at_ (app_meta (seen_or m false)) g SLsc).
  Proof.
    intros G K. unfold step, at_. cbn [pc set_pc with_state demes]. rewrite gsc_eval_set_pc. fold (set_pc m (PDeme t d g SGsc)).
    cbn [seen set_pc with_state]. rewrite G. fold (lvl m). rewrite K. destruct (g <? _); reflexivity.
  Qed.
  Lemma step_gsc_false_cma m g :
    (negb (consistent (gsc_eval (gsc c) (height c) m) false) || (seen m && negb false)) = false -> kind_of c (lvl m) = KCma ->
    step c (at_ m g SGsc) (EGsc false) = Some (at_ (seen_or m false) g SCma).
  Proof.
    intros G K. unfold step, at_. cbn [pc set_pc with_state demes]. rewrite gsc_eval_set_pc. fold (set_pc m (PDeme t d g SGsc)).
    cbn [seen set_pc with_state]. rewrite G. fold (lvl m). rewrite K. reflexivity.
  Qed.
  Lemma step_gsc_false_sampler m g :
    (negb (consistent (gsc_eval (gsc c) (height c) m) false) || (seen m && negb false)) = false -> kind_of c (lvl m) = KSampler ->
    step c (at_ m g SGsc) (EGsc false) = Some (at_ (seen_or m false) g SLsc).
  Proof.
    intros G K. unfold step, at_. cbn [pc set_pc with_state demes]. rewrite gsc_eval_set_pc. fold (set_pc m (PDeme t d g SGsc)).
    cbn [seen set_pc with_state]. rewrite G. fold (lvl m). rewrite K. reflexivity.
  Qed.
  Lemma step_gsc_true_sampler m g :
    (negb (consistent (gsc_eval (gsc c) (height c) m) true) || (seen m && negb true)) = false -> kind_of c (lvl m) = KSampler ->
    step c (at_ m g SGsc) (EGsc true) = Some (finish c t (deact (seen_or m true))).
  Proof.
    intros G K. unfold step, at_. cbn [pc set_pc with_state demes]. rewrite gsc_eval_set_pc. fold (set_pc m (PDeme t d g SGsc)).
    cbn [seen set_pc with_state]. rewrite G. fold (lvl m). rewrite K.
    etransitivity; [|apply f_equal, finish_set_pc]; reflexivity.
  Qed.
  Lemma step_lsc m g v :
    negb (consistent (lsc_eval (lsc_of c (lvl m)) d (demes m)) v) = false ->
    step c (at_ m g SLsc) (ELsc v) =
    Some (if v then finish c t (deact m) else match kind_of c (lvl m) with KCma => at_ m g SCma2 | _ => finish c t m end).
  Proof.
    intros G. unfold step, at_. cbn [pc set_pc with_state demes]. fold (lvl m). rewrite G. destruct v.
    - etransitivity; [|apply f_equal, finish_set_pc]; reflexivity.
    - destruct (kind_of c (lvl m)); try reflexivity; (etransitivity; [|apply f_equal, finish_set_pc]; reflexivity).
  Qed.
  Lemma step_cma m g v :
    step c (at_ m g SCma) (ECma v) =
    Some (if v then finish c t (deact (app_meta m)) else if g <? gens_of c (lvl m) then at_ m g SGen else at_ (app_meta m) g SLsc).
  Proof.
    unfold step, at_. cbn [pc set_pc with_state demes]. fold (lvl m). destruct v.
    - etransitivity; [|apply f_equal, finish_set_pc]; reflexivity.
    - destruct (g <? _); reflexivity.
  Qed.
  Lemma step_cma2 m g v : step c (at_ m g SCma2) (ECma v) = Some (if v then finish c t (deact m) else finish c t m).
  Proof.
    unfold step, at_. cbn [pc set_pc with_state demes]. destruct v; (etransitivity; [|apply f_equal, finish_set_pc]; reflexivity).
  Qed.
End DemeSim.

Lemma run_one c s e s' : step c s e = Some s' -> run c s [e] = Some s'.
Proof. intros H. simpl. now rewrite H. Qed.
Lemma run_cons c s e r : run c s (e :: r) = match step c s e with Some s' => run c s' r | None => None end.
Proof. reflexivity. Qed.
Lemma ret_inv {A} (a : A) s evs r : ret a s evs = Some r -> r = (a, s, evs).
Proof. unfold ret. congruence. Qed.

Section DemeRun.
  Variables (c : cfg) (t : list nat) (d : nat).
  Local Notation AT := (at_ t d).
  Local Notation LVL := (lvl d).

  Lemma pop_loop_sim gens : forall fuel g m p evs r s1 rest,
    kind_of c (LVL m) = KPop -> gens = gens_of c (LVL m) -> g < gens ->
    while_ fuel (gens_cond c d) (pop_body c d) g (mk m p) evs = Some (r, s1, rest) ->
    exists used m', evs = used ++ rest /\ s1 = mk m' p /\ shape m' = shape m /\
      run c (AT m g SGen) used = Some (if snd r then finish c t m' else AT (app_meta d m') (fst r) SLsc).
  Proof.
    induction fuel as [|f IH]; intros g m p evs r s1 rest K G Hg H; [discriminate|].
    cbn [while_] in H. apply bind_inv in H as (b & sa & ea & Hc & H). unfold gens_cond, r_generations, deme_of, bind, ret in Hc. cbn [ms mk] in Hc. fold (lvl d m) in Hc. rewrite <- G in Hc. injection Hc as <- <- <-.
    assert (E : g <? gens = true) by (apply Nat.ltb_lt; lia). rewrite E in H. clear E.
    apply bind_inv in H as (rb & sb & eb & Hb & H). unfold pop_body in Hb.
    apply bind_inv in Hb as ([] & s2 & e2 & Hi & Hb). apply p_iter_inv in Hi as (n & -> & ->).
    apply bind_inv in Hb as (v & s3 & e3 & Hg3 & Hb). apply p_gsc_inv in Hg3 as (-> & -> & Gv).
    assert (Kn : kind_of c (LVL (gen_st m d n)) <> KSampler) by (rewrite lvl_gen_st; congruence).
    destruct v.
    - (* the condition holds: append, deactivate, return *)
      apply bind_inv in Hb as ([] & s4 & e4 & Ha & Hb). apply bind_inv in Hb as ([] & s5 & e5 & Hd & Hb).
      apply ret_inv in Hb. injection Hb as -> -> ->. cbn [snd] in H.
      apply ret_inv in H. injection H as -> -> ->.
      unfold p_append_meta in Ha. injection Ha as <- <-. unfold p_deactivate in Hd. injection Hd as <- <-.
      exists [EGen n; EGsc true]. exists (deact d (app_meta d (seen_or (gen_st m d n) true))).
      split; [reflexivity|]. split; [reflexivity|]. split.
      + now rewrite shape_deact, shape_app_meta, shape_seen_or, shape_gen_st.
      + cbn [snd]. rewrite run_cons, step_gen by congruence. rewrite run_cons, step_gsc_true; auto.
    - apply ret_inv in Hb. injection Hb as -> -> ->. cbn [snd fst] in H.
      pose proof (step_gsc_false_pop c t d (gen_st m d n) (S g) Gv) as SG. rewrite lvl_gen_st in SG. specialize (SG K). rewrite <- G in SG.
      destruct (Nat.ltb_spec (S g) gens) as [Hlt|Hge].
      + apply IH in H as (used & m' & -> & -> & L & R); try assumption.
        * exists (EGen n :: EGsc false :: used), m'. split; [reflexivity|]. split; [reflexivity|]. split; [now rewrite L, shape_seen_or, shape_gen_st|].
          rewrite run_cons, step_gen by congruence. rewrite run_cons, SG. exact R.
        * rewrite lvl_seen_or, lvl_gen_st. exact K.
        * now rewrite lvl_seen_or, lvl_gen_st.
      + destruct f as [|f']; [discriminate|]. cbn [while_] in H. apply bind_inv in H as (b & sa & ea & Hc & H).
        unfold gens_cond, r_generations, deme_of, bind, ret in Hc. cbn [ms mk] in Hc. fold (lvl d (seen_or (gen_st m d n) false)) in Hc. rewrite lvl_seen_or, lvl_gen_st, <- G in Hc. injection Hc as <- <- <-.
        assert (E : S g <? gens = false) by (apply Nat.ltb_ge; lia). rewrite E in H. clear E. apply ret_inv in H. injection H as -> -> ->.
        exists [EGen n; EGsc false]. eexists. split; [reflexivity|]. split; [reflexivity|]. split; [now rewrite shape_seen_or, shape_gen_st|].
        cbn [snd fst]. rewrite run_cons, step_gen by congruence. rewrite run_cons, SG. reflexivity.
  Qed.

  Lemma run_pop_sim fuel m p evs s1 rest :
    kind_of c (LVL m) = KPop -> 1 <= gens_of c (LVL m) ->
    run_pop c fuel d (mk m p) evs = Some (tt, s1, rest) ->
    exists used m', evs = used ++ rest /\ s1 = mk m' p /\ shape m' = shape m /\ run c (AT m 0 SGen) used = Some (finish c t m').
  Proof.
    intros K G H. unfold run_pop in H.
    apply bind_inv in H as (r & sb & eb & Hl & H).
    apply (pop_loop_sim (gens_of c (LVL m))) in Hl as (used & m' & -> & -> & L & R); auto.
    destruct (snd r).
    - apply ret_inv in H. injection H as -> ->. exists used, m'. auto.
    - apply bind_inv in H as ([] & s2 & e2 & Ha & H). unfold p_append_meta in Ha. injection Ha as <- <-.
      apply bind_inv in H as (v & s3 & e3 & Hv & H). apply p_lsc_inv in Hv as (-> & -> & Gv).
      fold (app_meta d m') in *. fold (lvl d (app_meta d m')) in Gv.
      pose proof (step_lsc c t d (app_meta d m') (fst r) v Gv) as SL. rewrite lvl_app_meta in SL.
      assert (KK : kind_of c (LVL m') = KPop) by (unfold lvl; rewrite (shape_lvl d m m' L); exact K). rewrite KK in SL.
      destruct v.
      + unfold p_deactivate in H. injection H as <- <-. exists (used ++ [ELsc true]), (deact d (app_meta d m')).
        split; [now rewrite <- app_assoc|]. split; [reflexivity|]. split; [now rewrite shape_deact, shape_app_meta|].
        rewrite run_app, R. simpl. now rewrite SL.
      + apply ret_inv in H. injection H as -> ->. exists (used ++ [ELsc false]), (app_meta d m').
        split; [now rewrite <- app_assoc|]. split; [reflexivity|]. split; [now rewrite shape_app_meta|].
        rewrite run_app, R. simpl. now rewrite SL.
  Qed.

  Lemma or_inv (a b : D bool) s evs v s' r :
    or_ a b s evs = Some (v, s', r) ->
    (a s evs = Some (true, s', r) /\ v = true) \/ (exists s1 e1, a s evs = Some (false, s1, e1) /\ b s1 e1 = Some (v, s', r)).
  Proof.
    unfold or_. intros H. apply bind_inv in H as (x & s1 & e1 & Ha & H). destruct x.
    - apply ret_inv in H. injection H as -> -> ->. now left.
    - right. now exists s1, e1.
  Qed.

  Lemma cma_loop_sim gens : forall fuel g m p evs r s1 rest,
    kind_of c (LVL m) = KCma -> gens = gens_of c (LVL m) -> g < gens ->
    while_ fuel (gens_cond c d) (cma_body c d) g (mk m p) evs = Some (r, s1, rest) ->
    exists used m', evs = used ++ rest /\ s1 = mk m' p /\ shape m' = shape m /\
      run c (AT m g SGen) used = Some (if snd r then finish c t m' else AT (app_meta d m') (fst r) SLsc).
  Proof.
    induction fuel as [|f IH]; intros g m p evs r s1 rest K G Hg H; [discriminate|].
    cbn [while_] in H. apply bind_inv in H as (b & sa & ea & Hc & H). unfold gens_cond, r_generations, deme_of, bind, ret in Hc. cbn [ms mk] in Hc. fold (lvl d m) in Hc. rewrite <- G in Hc. injection Hc as <- <- <-.
    assert (E : g <? gens = true) by (apply Nat.ltb_lt; lia). rewrite E in H. clear E.
    apply bind_inv in H as (rb & sb & eb & Hb & H). unfold cma_body in Hb.
    apply bind_inv in Hb as ([] & s2 & e2 & Hi & Hb). apply p_iter_inv in Hi as (n & -> & ->).
    apply bind_inv in Hb as (v & s3 & e3 & Hg3 & Hb).
    assert (Kn : kind_of c (LVL (gen_st m d n)) <> KSampler) by (rewrite lvl_gen_st; congruence).
    assert (Kc : kind_of c (LVL (gen_st m d n)) = KCma) by (rewrite lvl_gen_st; congruence).
    apply or_inv in Hg3 as [(Hg3 & ->)|(sx & ex & Hg3 & Hs)].
    - (* the global condition holds *)
      apply p_gsc_inv in Hg3 as (-> & -> & Gv).
      apply bind_inv in Hb as ([] & s4 & e4 & Ha & Hb). apply bind_inv in Hb as ([] & s5 & e5 & Hd & Hb).
      apply ret_inv in Hb. injection Hb as -> -> ->. cbn [snd] in H. apply ret_inv in H. injection H as -> -> ->.
      unfold p_append_meta in Ha. injection Ha as <- <-. unfold p_deactivate in Hd. injection Hd as <- <-.
      exists [EGen n; EGsc true]. exists (deact d (app_meta d (seen_or (gen_st m d n) true))).
      split; [reflexivity|]. split; [reflexivity|]. split; [now rewrite shape_deact, shape_app_meta, shape_seen_or, shape_gen_st|].
      cbn [snd]. rewrite run_cons, step_gen by congruence. rewrite run_cons, step_gsc_true; auto.
    - apply p_gsc_inv in Hg3 as (-> & -> & Gv). apply p_cma_inv in Hs as (-> & ->).
      pose proof (step_gsc_false_cma c t d (gen_st m d n) (S g) Gv Kc) as SG.
      pose proof (step_cma c t d (seen_or (gen_st m d n) false) (S g) v) as SC. rewrite lvl_seen_or, lvl_gen_st, <- G in SC.
      destruct v.
      + (* CMA-ES stops itself *)
        apply bind_inv in Hb as ([] & s4 & e4 & Ha & Hb). apply bind_inv in Hb as ([] & s5 & e5 & Hd & Hb).
        apply ret_inv in Hb. injection Hb as -> -> ->. cbn [snd] in H. apply ret_inv in H. injection H as -> -> ->.
        unfold p_append_meta in Ha. injection Ha as <- <-. unfold p_deactivate in Hd. injection Hd as <- <-.
        exists [EGen n; EGsc false; ECma true]. exists (deact d (app_meta d (seen_or (gen_st m d n) false))).
        split; [reflexivity|]. split; [reflexivity|]. split; [now rewrite shape_deact, shape_app_meta, shape_seen_or, shape_gen_st|].
        cbn [snd]. rewrite run_cons, step_gen by congruence. rewrite run_cons, SG. rewrite run_cons, SC. reflexivity.
      + apply ret_inv in Hb. injection Hb as -> -> ->. cbn [snd fst] in H.
        destruct (Nat.ltb_spec (S g) gens) as [Hlt|Hge].
        * assert (K' : kind_of c (LVL (seen_or (gen_st m d n) false)) = KCma) by (rewrite lvl_seen_or, lvl_gen_st; exact K).
          assert (G' : gens = gens_of c (LVL (seen_or (gen_st m d n) false))) by (now rewrite lvl_seen_or, lvl_gen_st).
          destruct (IH _ _ _ _ _ _ _ K' G' Hlt H) as (used & m' & -> & -> & L & R).
          exists (EGen n :: EGsc false :: ECma false :: used), m'. split; [reflexivity|]. split; [reflexivity|].
          split; [now rewrite L, shape_seen_or, shape_gen_st|].
          rewrite run_cons, step_gen by congruence. rewrite run_cons, SG. rewrite run_cons, SC. exact R.
        * destruct f as [|f']; [discriminate|]. cbn [while_] in H. apply bind_inv in H as (b & sa & ea & Hc & H).
          unfold gens_cond, r_generations, deme_of, bind, ret in Hc. cbn [ms mk] in Hc. fold (lvl d (seen_or (gen_st m d n) false)) in Hc. rewrite lvl_seen_or, lvl_gen_st, <- G in Hc. injection Hc as <- <- <-.
          assert (E : S g <? gens = false) by (apply Nat.ltb_ge; lia). rewrite E in H. clear E. apply ret_inv in H. injection H as -> -> ->.
          exists [EGen n; EGsc false; ECma false]. eexists. split; [reflexivity|]. split; [reflexivity|].
          split; [now rewrite shape_seen_or, shape_gen_st|].
          cbn [snd fst]. rewrite run_cons, step_gen by congruence. rewrite run_cons, SG. rewrite run_cons, SC. reflexivity.
  Qed.

  Lemma run_cma_sim fuel m p evs s1 rest :
    kind_of c (LVL m) = KCma -> 1 <= gens_of c (LVL m) ->
    run_cma c fuel d (mk m p) evs = Some (tt, s1, rest) ->
    exists used m', evs = used ++ rest /\ s1 = mk m' p /\ shape m' = shape m /\ run c (AT m 0 SGen) used = Some (finish c t m').
  Proof.
    intros K G H. unfold run_cma in H.
    apply bind_inv in H as (r & sb & eb & Hl & H).
    apply (cma_loop_sim (gens_of c (LVL m))) in Hl as (used & m' & -> & -> & L & R); auto.
    destruct (snd r).
    - apply ret_inv in H. injection H as -> ->. exists used, m'. auto.
    - apply bind_inv in H as ([] & s2 & e2 & Ha & H). unfold p_append_meta in Ha. injection Ha as <- <-.
      apply bind_inv in H as (v & s3 & e3 & Hv & H). fold (app_meta d m') in *.
      assert (KK : kind_of c (LVL m') = KCma) by (unfold lvl; rewrite (shape_lvl d m m' L); exact K).
      apply or_inv in Hv as [(Hv & ->)|(sx & ex & Hv & Hs)].
      + apply p_lsc_inv in Hv as (-> & -> & Gv). fold (lvl d (app_meta d m')) in Gv.
        pose proof (step_lsc c t d (app_meta d m') (fst r) true Gv) as SL.
        unfold p_deactivate in H. injection H as <- <-. exists (used ++ [ELsc true]), (deact d (app_meta d m')).
        split; [now rewrite <- app_assoc|]. split; [reflexivity|]. split; [now rewrite shape_deact, shape_app_meta|].
        rewrite run_app, R. simpl. now rewrite SL.
      + apply p_lsc_inv in Hv as (-> & -> & Gv). fold (lvl d (app_meta d m')) in Gv. apply p_cma_inv in Hs as (-> & ->).
        pose proof (step_lsc c t d (app_meta d m') (fst r) false Gv) as SL. rewrite lvl_app_meta, KK in SL.
        pose proof (step_cma2 c t d (app_meta d m') (fst r) v) as S2.
        destruct v.
        * unfold p_deactivate in H. injection H as <- <-. exists (used ++ [ELsc false; ECma true]), (deact d (app_meta d m')).
          split; [now rewrite <- app_assoc|]. split; [reflexivity|]. split; [now rewrite shape_deact, shape_app_meta|].
          rewrite run_app, R. rewrite run_cons, SL. rewrite run_cons, S2. reflexivity.
        * apply ret_inv in H. injection H as -> ->. exists (used ++ [ELsc false; ECma false]), (app_meta d m').
          split; [now rewrite <- app_assoc|]. split; [reflexivity|]. split; [now rewrite shape_app_meta|].
          rewrite run_app, R. rewrite run_cons, SL. rewrite run_cons, S2. reflexivity.
  Qed.

  Lemma run_sampler_sim m p evs s1 rest g :
    kind_of c (LVL m) = KSampler ->
    run_sampler c d (mk m p) evs = Some (tt, s1, rest) ->
    exists used m', evs = used ++ rest /\ s1 = mk m' p /\ shape m' = shape m /\ run c (AT m g SGen) used = Some (finish c t m').
  Proof.
    intros K H. unfold run_sampler in H.
    apply bind_inv in H as ([] & s2 & e2 & Hi & H). apply p_iter_inv in Hi as (n & -> & ->).
    apply bind_inv in H as ([] & s3 & e3 & Ha & H). unfold p_append_meta in Ha. injection Ha as <- <-.
    fold (app_meta d (gen_st m d n)) in *.
    apply bind_inv in H as (v & s4 & e4 & Hv & H).
    assert (KK : kind_of c (LVL (app_meta d (gen_st m d n))) = KSampler) by (now rewrite lvl_app_meta, lvl_gen_st).
    pose proof (step_gen_sampler c t d m g n K) as SG.
    apply or_inv in Hv as [(Hv & ->)|(sx & ex & Hv & Hs)].
    - apply p_gsc_inv in Hv as (-> & -> & Gv). unfold p_deactivate in H. injection H as <- <-.
      exists [EGen n; EGsc true], (deact d (seen_or (app_meta d (gen_st m d n)) true)).
      split; [reflexivity|]. split; [reflexivity|]. split; [now rewrite shape_deact, shape_seen_or, shape_app_meta, shape_gen_st|].
      pose proof (step_gsc_true_sampler c t d (app_meta d (gen_st m d n)) (S g)) as ST. specialize (ST Gv KK).
      rewrite run_cons, SG. rewrite run_cons, ST. reflexivity.
    - apply p_gsc_inv in Hv as (-> & -> & Gv). apply p_lsc_inv in Hs as (-> & -> & Gl).
      pose proof (step_gsc_false_sampler c t d (app_meta d (gen_st m d n)) (S g)) as SF. specialize (SF Gv KK).
      pose proof (step_lsc c t d (seen_or (app_meta d (gen_st m d n)) false) (S g) v Gl) as SL.
      rewrite lvl_seen_or, KK in SL.
      destruct v.
      + unfold p_deactivate in H. injection H as <- <-.
        exists [EGen n; EGsc false; ELsc true], (deact d (seen_or (app_meta d (gen_st m d n)) false)).
        split; [reflexivity|]. split; [reflexivity|]. split; [now rewrite shape_deact, shape_seen_or, shape_app_meta, shape_gen_st|].
        rewrite run_cons, SG. rewrite run_cons, SF. rewrite run_cons, SL. reflexivity.
      + apply ret_inv in H. injection H as -> ->.
        exists [EGen n; EGsc false; ELsc false], (seen_or (app_meta d (gen_st m d n)) false).
        split; [reflexivity|]. split; [reflexivity|]. split; [now rewrite shape_seen_or, shape_app_meta, shape_gen_st|].
        rewrite run_cons, SG. rewrite run_cons, SF. rewrite run_cons, SL. reflexivity.
  Qed.

  Lemma run_local_sim m p evs s1 rest g :
    run_local d (mk m p) evs = Some (tt, s1, rest) ->
    exists used m', evs = used ++ rest /\ s1 = mk m' p /\ shape m' = shape m /\ run c (AT m g SLocal) used = Some (finish c t m').
  Proof.
    intros H. unfold run_local in H.
    apply bind_inv in H as (n & s2 & e2 & Hi & H). unfold p_local_search in Hi.
    destruct evs as [|[| | | |n'|] r']; try discriminate. cbn [ms mk] in Hi. injection Hi as -> <- <-.
    apply bind_inv in H as ([] & s3 & e3 & Hc & H). unfold p_count_evals in Hc. injection Hc as <- <-.
    apply bind_inv in H as ([] & s4 & e4 & Ha & H). unfold p_append_meta in Ha. injection Ha as <- <-.
    unfold p_deactivate in H. injection H as <- <-.
    exists [ELocal n]. eexists. split; [reflexivity|]. split; [reflexivity|]. split.
    - unfold shape. cbn [ms with_ms demes set_demes with_state mk]. rewrite !map_upd_inv by reflexivity. reflexivity.
    - rewrite run_cons. unfold step, at_. cbn [pc set_pc with_state demes seen mcount steps clock born_after_seen last_round].
      cbn [run]. apply f_equal, finish_pc_irrel. reflexivity.
  Qed.
End DemeRun.

(* ---------------------------------------------------------------- deme.run_metaepoch(tree): the dispatch *)
Definition gens_ok (c : cfg) : Prop := forall lv, 1 <= gens_of c lv.

Lemma run_deme_sim c t d fuel m p evs s1 rest :
  gens_ok c -> run_deme c fuel d (mk m p) evs = Some (tt, s1, rest) ->
  exists used m', evs = used ++ rest /\ s1 = mk m' p /\ shape m' = shape m /\
    run c (set_pc m (PDeme t d 0 (first_sub (kind_of c (lvl d m))))) used = Some (finish c t m').
Proof.
  intros G H. unfold run_deme in H. apply bind_inv in H as (lv & sa & ea & Hr & H).
  unfold r_level, deme_of in Hr. cbn [ms mk] in Hr. injection Hr as <- <- <-. fold (lvl d m) in H.
  destruct (kind_of c (lvl d m)) eqn:K; cbn [first_sub].
  - eapply run_pop_sim; eauto.
  - eapply run_cma_sim; eauto.
  - eapply run_local_sim; eauto.
  - eapply run_sampler_sim; eauto.
Qed.

(* ---------------------------------------------------------------- tree.active_demes and the machine's schedule *)
Lemma ids_from_and_filter q p : forall l pre,
  ids_from (length pre) (fun x => q x && p x) l = filter (fun i => p (dnth i (pre ++ l))) (ids_from (length pre) q l).
Proof.
  induction l as [|x r IH]; intros pre; [reflexivity|]. cbn [ids_from].
  assert (E : dnth (length pre) (pre ++ x :: r) = x) by (unfold dnth; rewrite app_nth2 by lia; now rewrite Nat.sub_diag).
  specialize (IH (pre ++ [x])). rewrite app_length in IH. cbn [length] in IH. rewrite Nat.add_1_r, <- app_assoc in IH. cbn [app] in IH.
  destruct (q x); cbn [andb filter].
  - rewrite E. destruct (p x); now rewrite IH.
  - exact IH.
Qed.
Lemma ids_and_filter q p l : ids (fun x => q x && p x) l = filter (fun i => p (dnth i l)) (ids q l).
Proof. exact (ids_from_and_filter q p l []). Qed.
Lemma filter_flat_map {A B} (f : B -> bool) (g : A -> list B) l : filter f (flat_map g l) = flat_map (fun a => filter f (g a)) l.
Proof. induction l as [|a r IH]; simpl; [reflexivity|]. now rewrite filter_app, IH. Qed.
Lemma filter_rev' {A} (f : A -> bool) l : filter f (rev l) = rev (filter f l).
Proof. induction l as [|a r IH]; simpl; [reflexivity|]. rewrite filter_app, IH. simpl. destruct (f a); simpl; [reflexivity|now rewrite app_nil_r]. Qed.
Lemma filter_filter {A} (f g : A -> bool) l : filter f (filter g l) = filter (fun x => g x && f x) l.
Proof. induction l as [|a r IH]; simpl; [reflexivity|]. destruct (g a); simpl; [destruct (f a)|]; now rewrite IH. Qed.

Lemma level_order_active_demes c p ds :
  level_order (height c) p ds = filter (fun i => p (dnth i ds)) (flat_map (fun l => level_ids ds l) (seq 0 (height c))).
Proof.
  unfold level_order. rewrite filter_flat_map. apply flat_map_ext. intros l. unfold level_ids. apply ids_and_filter.
Qed.
Lemma active_demes_spec c ds : active_demes c ds = level_order (height c) d_active ds.
Proof. rewrite level_order_active_demes. unfold active_demes. now rewrite filter_flat_map. Qed.

(* the machine's schedule (those due at the start of the metaepoch) = the active demes minus the hibernating ones *)
Lemma schedule_spec c ds :
  level_order (height c) d_should (map (mark_step (hib_on c)) ds) =
  filter (fun i => negb (hib_on c && d_hib (dnth i ds))) (active_demes c ds).
Proof.
  rewrite active_demes_spec, !level_order_active_demes, filter_filter.
  assert (E : forall l, level_ids (map (mark_step (hib_on c)) ds) l = level_ids ds l).
  { intros l. unfold level_ids, ids. generalize 0. induction ds as [|x r IH]; intros k; [reflexivity|]. cbn [map ids_from].
    change (d_lvl (mark_step (hib_on c) x)) with (d_lvl x). destruct (Nat.eqb (d_lvl x) l); now rewrite IH. }
  rewrite (flat_map_ext _ _ E).
  apply filter_ext_in. intros i Hi. apply in_flat_map in Hi as (l & _ & Hi). apply ids_spec in Hi as (Hi & _).
  rewrite dnth_map by exact Hi. reflexivity.
Qed.

(* ---------------------------------------------------------------- DemeTree.run_metaepoch *)
Definition awake (c : cfg) (m : st) (i : nat) : bool := negb (hib_on c && d_hib (dnth i (demes m))).

Lemma awake_shape c m m' : shape m' = shape m -> forall i, awake c m' i = awake c m i.
Proof. intros S i. unfold awake. now rewrite (shape_hib i m m' S). Qed.

Lemma metaepoch_loop_sim c fuel : gens_ok c -> forall todo m p evs b s1 rest,
  for_ todo (meta_body c fuel) (mk m p) evs = Some (b, s1, rest) ->
  exists used m', evs = used ++ rest /\ s1 = mk m' p /\ b = false /\ shape m' = shape m /\
    run c (begin_deme c (filter (awake c m) todo) m) used = Some (set_pc m' PStepGsc).
Proof.
  intros G. induction todo as [|d r IH]; intros m p evs b s1 rest H.
  - apply ret_inv in H. injection H as -> -> ->. exists [], m. repeat split; auto.
  - cbn [for_] in H. apply bind_inv in H as (x & sa & ea & Hb & H). unfold meta_body in Hb.
    apply bind_inv in Hb as (h & sb & eb & Hh & Hb). unfold r_hibernating, deme_of in Hh. cbn [ms mk] in Hh. injection Hh as <- <- <-.
    cbn [filter]. unfold awake at 1.
    destruct (hib_on c && d_hib (dnth d (demes m))) eqn:E; cbn [negb].
    + apply ret_inv in Hb. injection Hb as -> -> ->. now apply IH in H.
    + apply bind_inv in Hb as ([] & sc & ec & Hd & Hb). apply ret_inv in Hb. injection Hb as -> -> ->.
      apply (run_deme_sim c (filter (awake c m) r) d) in Hd as (u1 & m1 & -> & -> & S1 & R1); [|exact G].
      apply IH in H as (u2 & m2 & -> & -> & -> & S2 & R2).
      exists (u1 ++ u2), m2. split; [now rewrite app_assoc|]. split; [reflexivity|]. split; [reflexivity|]. split; [congruence|].
      rewrite run_app. cbn [begin_deme]. fold (lvl d m). rewrite R1. unfold finish.
      rewrite (filter_ext _ _ (awake_shape c m m1 S1)) in R2. exact R2.
Qed.

Lemma run_metaepoch_sim c fuel m p evs s1 rest :
  gens_ok c -> run_metaepoch c fuel (mk m p) evs = Some (tt, s1, rest) ->
  exists used m', evs = used ++ rest /\ s1 = mk m' p /\ shape m' = shape m /\
    run c (begin_deme c (filter (awake c m) (rev (active_demes c (demes m)))) m) used = Some (set_pc m' PStepGsc).
Proof.
  intros G H. unfold run_metaepoch in H. apply bind_inv in H as (s0 & sa & ea & Hg & H).
  unfold get_st in Hg. cbn [ms mk] in Hg. injection Hg as <- <- <-.
  apply bind_inv in H as (b & sb & eb & Hl & H). apply ret_inv in H. injection H as -> ->.
  apply (metaepoch_loop_sim c fuel G) in Hl as (used & m' & -> & -> & _ & S & R). exists used, m'. auto.
Qed.

(* ---------------------------------------------------------------- DemeTree._do_sprout *)
Lemma sprout_children_sim p target : forall ks m inits evs b s1 rest,
  for_ ks (fun _ : Z => sprout_child p target) (mk m inits) evs = Some (b, s1, rest) ->
  b = false /\ rest = evs /\
  s1 = mk (set_demes m (fst (sprout_one p target (mcount m) ks inits (demes m)))) (snd (sprout_one p target (mcount m) ks inits (demes m))).
Proof.
  induction ks as [|k ks IH]; intros m inits evs b s1 rest H.
  - apply ret_inv in H. injection H as -> -> ->. cbn [sprout_one fst snd]. repeat split. destruct m; reflexivity.
  - cbn [for_] in H. apply bind_inv in H as (x & sa & ea & Hb & H). unfold sprout_child in Hb.
    apply bind_inv in Hb as (mc & sb & eb & Hm & Hb). unfold r_metaepoch_count in Hm. cbn [ms mk] in Hm. injection Hm as <- <- <-.
    apply bind_inv in Hb as (ch & sc & ec & Hi & Hb). unfold p_init_from_config in Hi. rewrite Nat.eqb_refl in Hi. cbn [negb pend mk] in Hi.
    destruct inits as [|n inits']; [discriminate|]. injection Hi as <- <- <-.
    apply bind_inv in Hb as ([] & sd & ed & Ha & Hb). unfold p_append_level in Ha. cbn [add_child set_d d_lvl] in Ha.
    rewrite Nat.eqb_refl in Ha. cbn [negb ms with_ms] in Ha. injection Ha as <- <-.
    apply ret_inv in Hb. injection Hb as -> -> ->.
    apply IH in H as (-> & -> & ->). repeat split; cbn [sprout_one hd tl mcount set_demes with_state demes]; reflexivity.
Qed.

Lemma sprout_one_app_prefix par lvl m ks inits ds : exists new, fst (sprout_one par lvl m ks inits ds) = ds ++ new.
Proof.
  revert inits ds; induction ks as [|k ks IH]; intros inits ds; cbn [sprout_one fst]; [exists []; now rewrite app_nil_r|].
  destruct (IH (tl inits) (ds ++ [new_deme lvl par m (hd 0 inits)])) as (new & ->). eexists. now rewrite <- app_assoc.
Qed.

Lemma do_sprout_b_loop_sim ds0 : forall seeds m inits evs b s1 rest,
  (forall pk, In pk seeds -> fst pk < length ds0) -> (exists new, demes m = ds0 ++ new) ->
  for_ seeds sprout_parent (mk m inits) evs = Some (b, s1, rest) ->
  b = false /\ rest = evs /\ exists p', s1 = mk (set_demes m (do_sprout (mcount m) seeds inits (fun i => d_lvl (dnth i ds0)) (demes m))) p'.
Proof.
  induction seeds as [|[p ks] seeds IH]; intros m inits evs b s1 rest V (new & P) H.
  - apply ret_inv in H. injection H as -> -> ->. repeat split. exists inits. cbn [do_sprout]. destruct m; reflexivity.
  - cbn [for_] in H. apply bind_inv in H as (x & sa & ea & Hb & H). unfold sprout_parent in Hb. cbn [fst snd] in Hb.
    apply bind_inv in Hb as (lv & sb & eb & Hl & Hb). unfold r_level, deme_of in Hl. cbn [ms mk] in Hl. injection Hl as <- <- <-.
    apply sprout_children_sim in Hb as (-> & -> & ->).
    assert (Ep : d_lvl (dnth p (demes m)) = d_lvl (dnth p ds0)).
    { rewrite P. rewrite dnth_app_l; [reflexivity|]. apply (V (p, ks)). now left. }
    apply IH in H as (-> & -> & p' & ->).
    + repeat split. exists p'. cbn [do_sprout]. rewrite Ep.
      destruct (sprout_one p (S (d_lvl (dnth p ds0))) (mcount m) ks inits (demes m)) as [ds' inits'] eqn:E. cbn [fst snd mcount set_demes with_state demes].
      destruct m; reflexivity.
    + intros pk Hpk. apply V. now right.
    + cbn [demes set_demes with_state]. destruct (sprout_one_app_prefix p (S (d_lvl (dnth p (demes m)))) (mcount m) ks inits (demes m)) as (n2 & ->).
      rewrite P. exists (new ++ n2). now rewrite app_assoc.
Qed.

Lemma do_sprout_nonempty m lvl_of : forall seeds inits ds, do_sprout m (nonempty seeds) inits lvl_of ds = do_sprout m seeds inits lvl_of ds.
Proof.
  induction seeds as [|[p ks] seeds IH]; intros inits ds; [reflexivity|]. unfold nonempty in *. cbn [filter snd do_sprout].
  destruct ks as [|k ks]; cbn [length Nat.eqb negb].
  - cbn [sprout_one]. apply IH.
  - cbn [do_sprout]. destruct (sprout_one p (S (lvl_of p)) m (k :: ks) inits ds). apply IH.
Qed.

(* ---------------------------------------------------------------- the hibernation flags after a round *)
Lemma hib_loop_sim (f : nat -> bool) : forall l m p evs b s1 rest,
  for_ l (fun d => p_set_hibernating d (f d) ;;; ret false) (mk m p) evs = Some (b, s1, rest) ->
  b = false /\ rest = evs /\ s1 = mk (set_demes m (fold_left (fun ds d => upd d (set_hib (f d)) ds) l (demes m))) p.
Proof.
  induction l as [|d l IH]; intros m p evs b s1 rest H.
  - apply ret_inv in H. injection H as -> -> ->. repeat split. destruct m; reflexivity.
  - cbn [for_] in H. apply bind_inv in H as (x & sa & ea & Hb & H). apply bind_inv in Hb as ([] & sb & eb & Hs & Hb).
    unfold p_set_hibernating in Hs. cbn [ms mk with_ms] in Hs. injection Hs as <- <-. apply ret_inv in Hb. injection Hb as -> -> ->.
    apply IH in H as (-> & -> & ->). repeat split; cbn [fold_left demes set_demes with_state]; destruct m; reflexivity.
Qed.

Lemma fold_upd_dnth (f : nat -> deme -> deme) j : forall l ds, NoDup l ->
  dnth j (fold_left (fun ds d => upd d (f d) ds) l ds) = if existsb (Nat.eqb j) l && (j <? length ds) then f j (dnth j ds) else dnth j ds.
Proof.
  induction l as [|d l IH]; intros ds N; [reflexivity|]. inversion N as [|? ? Nd Nl]; subst. cbn [fold_left existsb].
  rewrite IH by assumption. rewrite upd_length.
  destruct (Nat.eqb_spec j d) as [->|Ne].
  - assert (E : existsb (Nat.eqb d) l = false).
    { destruct (existsb (Nat.eqb d) l) eqn:E; [|reflexivity]. apply existsb_exists in E as (x & Hx & Hx'). apply Nat.eqb_eq in Hx'. subst. contradiction. }
    rewrite E. cbn [orb andb]. rewrite dnth_upd, Nat.eqb_refl. cbn [andb]. reflexivity.
  - cbn [orb]. rewrite dnth_upd_other by congruence. reflexivity.
Qed.
Lemma fold_upd_length (f : nat -> deme -> deme) : forall l ds, length (fold_left (fun ds d => upd d (f d) ds) l ds) = length ds.
Proof. induction l as [|d l IH]; intros ds; cbn [fold_left]; [reflexivity|]. now rewrite IH, upd_length. Qed.

Lemma existsb_same_elements j l l' : (forall x, In x l <-> In x l') -> existsb (Nat.eqb j) l = existsb (Nat.eqb j) l'.
Proof.
  intros H. apply eq_true_iff_eq. rewrite !existsb_exists. split; intros (x & Hx & E); exists x; split; auto; now apply H.
Qed.
Lemma in_seeds_nonempty seeds i : in_seeds (nonempty seeds) i = has_seeds seeds i.
Proof.
  unfold in_seeds, has_seeds, nonempty. induction seeds as [|[p ks] r IH]; [reflexivity|]. cbn [filter existsb fst snd].
  destruct (negb (Nat.eqb (length ks) 0)) eqn:E; cbn [existsb fst].
  - now rewrite IH, andb_true_r.
  - now rewrite IH, andb_false_r.
Qed.

Lemma active_non_leaves_spec c ds : active_non_leaves c ds = level_order (height c - 1) d_active ds.
Proof.
  unfold active_non_leaves, level_order. apply flat_map_ext. intros l. unfold level_ids.
  rewrite ids_and_filter. reflexivity.
Qed.

Lemma hibs_agree c seeds ds0 ds1 :
  length ds0 <= length ds1 -> (forall i, i < length ds0 -> dnth i ds1 = dnth i ds0) ->
  fold_left (fun ds d => upd d (set_hib (negb (in_seeds (nonempty seeds) d))) ds) (rev (active_non_leaves c ds0)) ds1 =
  set_hibs 0 (ids (fun d => d_active d && (S (d_lvl d) <? height c)) ds0) seeds ds1.
Proof.
  intros L P. apply list_eq_dnth; [now rewrite fold_upd_length, set_hibs_length|].
  rewrite fold_upd_length. intros j Hj.
  rewrite (fold_upd_dnth (fun d => set_hib (negb (in_seeds (nonempty seeds) d)))).
  2:{ apply NoDup_rev. rewrite active_non_leaves_spec. apply level_order_NoDup. }
  rewrite set_hibs_dnth by exact Hj. cbn [Nat.add]. rewrite in_seeds_nonempty.
  assert (E : existsb (Nat.eqb j) (rev (active_non_leaves c ds0)) = existsb (Nat.eqb j) (ids (fun d => d_active d && (S (d_lvl d) <? height c)) ds0)).
  { apply existsb_same_elements. intros x. rewrite <- in_rev, active_non_leaves_spec, level_order_spec, ids_spec.
    split.
    - intros (H1 & H2 & H3). split; [exact H1|]. rewrite H3. cbn [andb]. apply Nat.ltb_lt. lia.
    - intros (H1 & H2). apply andb_prop in H2 as (H2 & H3). apply Nat.ltb_lt in H3. repeat split; auto. lia. }
  rewrite E. apply Nat.ltb_lt in Hj. rewrite Hj, andb_true_r. reflexivity.
Qed.

(* ---------------------------------------------------------------- DemeTree.run_sprout = the machine's sprouting step *)
Lemma seeds_parents_valid c ds cands post pk :
  seeds_valid c ds cands = true ->
  In pk (nonempty (mask_cmap (match level_lim c with Some L => level_limit (maximize c) L (fun i => d_lvl (dnth i ds)) (active_at ds) cands | None => cands end) post)) ->
  fst pk < length ds.
Proof.
  intros V H. unfold nonempty in H. apply filter_In in H as (H & _).
  assert (Hin : In (fst pk) (map fst cands)).
  { apply (in_map fst) in H. apply mask_cmap_fst_in in H. destruct (level_lim c); [now rewrite level_limit_fst in H|exact H]. }
  now apply (seeds_parent_valid c ds cands (fst pk) V) in Hin.
Qed.

Lemma run_sprout_sim c m p evs s1 rest :
  run_sprout c (mk m p) evs = Some (tt, s1, rest) ->
  exists e m' p', evs = e :: rest /\ s1 = mk m' p' /\ step c (set_pc m PSprout) e = Some (set_pc m' PMain).
Proof.
  intros H. unfold run_sprout in H. apply bind_inv in H as (s0 & sa & ea & Hg & H).
  unfold get_st in Hg. cbn [ms mk] in Hg. injection Hg as <- <- <-.
  apply bind_inv in H as (seeds & sb & eb & Hs & H). unfold p_get_seeds in Hs.
  destruct evs as [|[| | | | |cands post inits] r]; try discriminate. cbn [ms mk] in Hs.
  set (ds := demes m) in *. set (lvl_of := fun i => d_lvl (dnth i ds)) in *.
  set (c1 := match level_lim c with Some L => level_limit (maximize c) L lvl_of (active_at ds) cands | None => cands end) in *.
  set (sd := mask_cmap c1 post) in *.
  destruct (negb (seeds_valid c ds cands) || negb (Nat.eqb (length post) (length cands)) || negb (Nat.eqb (length inits) (total_seeds sd))) eqn:E; [discriminate|].
  injection Hs as <- <- <-.
  assert (V : seeds_valid c ds cands = true).
  { apply orb_false_iff in E as (E & _). apply orb_false_iff in E as (E & _). now apply negb_false_iff in E. }
  apply bind_inv in H as ([] & sc & ec & Hd & H). unfold do_sprout_b in Hd.
  apply bind_inv in Hd as (b & sd' & ed & Hd & Hr). apply ret_inv in Hr. injection Hr as -> ->.
  apply (do_sprout_b_loop_sim ds) in Hd as (-> & -> & p' & ->).
  2:{ intros pk Hpk. eapply seeds_parents_valid; eauto. }
  2:{ exists []. cbn [demes with_state]. now rewrite app_nil_r. }
  cbn [mcount demes with_state] in H. rewrite do_sprout_nonempty in H.
  exists (ESprout cands post inits). 
  unfold step. cbn [pc set_pc with_state demes mcount seen steps clock born_after_seen last_round].
  fold ds. fold lvl_of. fold c1. fold sd. rewrite E.
  destruct (hib_on c).
  - apply bind_inv in H as (b & se & ee & Hh & H). apply ret_inv in H. injection H as -> ->.
    apply hib_loop_sim in Hh as (-> & -> & ->). cbn [demes set_demes with_state] in *.
    eexists. exists p'. split; [reflexivity|]. split; [reflexivity|].
    fold ds. rewrite (hibs_agree c sd ds).
    + reflexivity.
    + rewrite do_sprout_length. lia.
    + intros i Hi. now apply do_sprout_prefix.
  - apply ret_inv in H. injection H as -> ->. eexists. exists p'. split; [reflexivity|]. split; [reflexivity|]. reflexivity.
Qed.

(* ---------------------------------------------------------------- DemeTree.run_step and run *)
Lemma schedule_rev c ds :
  let ds1 := map (mark_step (hib_on c)) ds in
  rev (level_order (height c) d_should ds1) = filter (fun i => negb (hib_on c && d_hib (dnth i ds1))) (rev (active_demes c ds1)).
Proof.
  intros ds1. rewrite filter_rev'. f_equal.
  rewrite active_demes_spec, !level_order_active_demes, filter_filter.
  apply filter_ext_in. intros i Hi. apply in_flat_map in Hi as (l & _ & Hi). apply ids_spec in Hi as (Hi & _).
  unfold ds1 in *. rewrite map_length in Hi. rewrite dnth_map by exact Hi. reflexivity.
Qed.

Definition inc_st (c : cfg) (m : st) : st :=
  with_state m (S (mcount m)) (map (mark_step (hib_on c)) (demes m)) (pc m) (seen m) (S (steps m)) (clock m) (born_after_seen m) (last_round m).

Lemma seen_or_false m : seen_or m false = m.
Proof. unfold seen_or. rewrite orb_false_r. destruct m; reflexivity. Qed.

Lemma step_main_false c m :
  (negb (consistent (gsc_eval (gsc c) (height c) m) false) || (seen m && negb false)) = false ->
  step c (set_pc m PMain) (EGsc false) =
  Some (begin_deme c (rev (level_order (height c) d_should (map (mark_step (hib_on c)) (demes m)))) (inc_st c m)).
Proof.
  intros G. unfold step. cbn [pc set_pc with_state]. rewrite gsc_eval_set_pc. cbn [seen set_pc with_state]. rewrite G.
  cbn [demes mcount steps clock born_after_seen last_round seen]. f_equal; try (unfold begin_deme, inc_st; destruct (rev _); reflexivity).
Qed.
Lemma step_main_true c m :
  (negb (consistent (gsc_eval (gsc c) (height c) m) true) || (seen m && negb true)) = false ->
  step c (set_pc m PMain) (EGsc true) = Some (set_pc (seen_or m true) PDone).
Proof.
  intros G. unfold step. cbn [pc set_pc with_state]. rewrite gsc_eval_set_pc. cbn [seen set_pc with_state]. rewrite G.
  unfold seen_or. rewrite orb_true_r. reflexivity.
Qed.
Lemma step_stepgsc c m v :
  (negb (consistent (gsc_eval (gsc c) (height c) m) v) || (seen m && negb v)) = false ->
  step c (set_pc m PStepGsc) (EGsc v) = Some (set_pc (seen_or m v) (if v then PMain else PSprout)).
Proof.
  intros G. unfold step. cbn [pc set_pc with_state]. rewrite gsc_eval_set_pc. cbn [seen set_pc with_state]. rewrite G. reflexivity.
Qed.

Lemma run_step_sim c fuel m p evs s1 rest :
  gens_ok c ->
  (negb (consistent (gsc_eval (gsc c) (height c) m) false) || (seen m && negb false)) = false ->
  run_step c fuel (mk m p) evs = Some (tt, s1, rest) ->
  exists used m' p', evs = used ++ rest /\ s1 = mk m' p' /\ run c (set_pc m PMain) (EGsc false :: used) = Some (set_pc m' PMain).
Proof.
  intros G Gv H. unfold run_step in H. apply bind_inv in H as ([] & sa & ea & Hi & H).
  unfold p_inc_metaepoch in Hi. cbn [ms mk with_ms] in Hi. injection Hi as <- <-. fold (inc_st c m) in H.
  apply bind_inv in H as ([] & sb & eb & Hm & H).
  apply run_metaepoch_sim in Hm as (u1 & m1 & -> & -> & S1 & R1); [|exact G].
  apply bind_inv in H as (v & sc & ec & Hv & H). apply p_gsc_inv in Hv as (-> & -> & Gv1).
  assert (R0 : forall used, run c (set_pc m PMain) (EGsc false :: used) =
                            run c (begin_deme c (filter (awake c (inc_st c m)) (rev (active_demes c (demes (inc_st c m))))) (inc_st c m)) used).
  { intros used. rewrite run_cons, step_main_false by exact Gv. pose proof (schedule_rev c (demes m)) as SR. cbn zeta in SR. rewrite SR. reflexivity. }
  destruct v.
  - apply ret_inv in H. injection H as -> ->. exists (u1 ++ [EGsc true]), (seen_or m1 true), p.
    split; [now rewrite <- app_assoc|]. split; [reflexivity|].
    rewrite R0, run_app, R1. cbn [run]. now rewrite step_stepgsc.
  - apply run_sprout_sim in H as (e & m2 & p2 & -> & -> & R2).
    exists (u1 ++ [EGsc false; e]), m2, p2. split; [now rewrite <- app_assoc|]. split; [reflexivity|].
    rewrite R0, run_app, R1. rewrite run_cons, step_stepgsc by exact Gv1. rewrite run_cons, R2. reflexivity.
Qed.

Lemma run_tree_loop_sim c fuel : gens_ok c -> forall f m p evs r s1 rest,
  while_ f (run_cond c) (run_body c fuel) tt (mk m p) evs = Some (r, s1, rest) ->
  exists used m' p', evs = used ++ rest /\ s1 = mk m' p' /\ run c (set_pc m PMain) used = Some (set_pc m' PDone).
Proof.
  intros G. induction f as [|f IH]; intros m p evs r s1 rest H; [discriminate|].
  cbn [while_] in H. apply bind_inv in H as (b & sa & ea & Hc & H). unfold run_cond in Hc.
  apply bind_inv in Hc as (v & sb & eb & Hv & Hc). apply p_gsc_inv in Hv as (-> & -> & Gv). apply ret_inv in Hc. injection Hc as -> -> ->.
  destruct v; cbn [negb] in H.
  - apply ret_inv in H. injection H as -> -> ->. exists [EGsc true], (seen_or m true), p. split; [reflexivity|]. split; [reflexivity|].
    cbn [run]. now rewrite step_main_true.
  - apply bind_inv in H as (rb & sc & ec & Hb & H). unfold run_body in Hb. apply bind_inv in Hb as ([] & sd & ed & Hs & Hb).
    apply ret_inv in Hb. injection Hb as -> -> ->. cbn [snd fst] in H.
    rewrite seen_or_false in Hs. apply run_step_sim in Hs as (u1 & m1 & p1 & -> & -> & R1); auto.
    apply IH in H as (u2 & m2 & p2 & -> & -> & R2).
    exists (EGsc false :: u1 ++ u2), m2, p2. split; [cbn [app]; now rewrite app_assoc|]. split; [reflexivity|].
    change (EGsc false :: u1 ++ u2) with ((EGsc false :: u1) ++ u2). rewrite run_app, R1. exact R2.
Qed.

(* THE SIMULATION THEOREM: whatever the translated run() does on an event stream is a run the small-step machine accepts, with the
   same final state (up to the control point) *)
Theorem run_tree_sim c fuel s evs s' rest :
  gens_ok c -> pc s = PMain ->
  exec (run_tree c fuel) s evs = Some (tt, s', rest) ->
  exists used s'', evs = used ++ rest /\ run c s used = Some s'' /\ pc s'' = PDone /\ set_pc s'' PMain = set_pc s' PMain.
Proof.
  intros G P H. unfold exec in H. destruct (run_tree c fuel {| ms := s; pend := [] |} evs) as [[[[] sx] rx]|] eqn:E; [|discriminate].
  injection H as <- <-. unfold run_tree in E. apply bind_inv in E as (r & sa & ea & Hl & E). apply ret_inv in E. injection E as -> ->.
  apply (run_tree_loop_sim c fuel G) in Hl as (used & m' & p' & -> & -> & R).
  rewrite <- P, set_pc_same in R. exists used, (set_pc m' PDone). repeat split; auto; cbn [ms mk]; now rewrite set_pc_set_pc.
Qed.
