(* Proofs/DriverFacts.v — every execution of the big-step driver programs (Model/Driver.v, proved equal to the programs translated
   from pyhms/tree.py and the deme classes) is a run accepted by the small-step machine of Model/Tree.v, with the same final
   state.  Hence every theorem about all accepted runs (INV and its corollaries: C03, C05, C06, C07, C08, C18, C19, C20) holds
   of the translated code. *)
From Coq Require Import List Bool Arith ZArith Lia.
From HV Require Import Ord ListX Sprout Tree TreeLemmas TreeInv TreeRun DriverPrim Driver.
Import ListNotations.

Definition mk (m : st) (p : list nat) : dst := {| ms := m; pend := p |}.

Lemma set_pc_set_pc s a b : set_pc (set_pc s a) b = set_pc s b.
Proof. destruct s; reflexivity. Qed.
Lemma set_pc_same s : set_pc s (pc s) = s.
Proof. destruct s; reflexivity. Qed.
Lemma demes_set_pc s a : demes (set_pc s a) = demes s. Proof. reflexivity. Qed.
Lemma set_demes_set_pc s ds a : set_demes (set_pc s a) ds = set_pc (set_demes s ds) a. Proof. reflexivity. Qed.
Lemma finish_set_pc c t s a : finish c t (set_pc s a) = finish c t s.
Proof. unfold finish, begin_deme. destruct t; rewrite ?set_pc_set_pc; reflexivity. Qed.

Lemma finish_pc_irrel c t s s' : set_pc s PMain = set_pc s' PMain -> finish c t s = finish c t s'.
Proof. intros H. rewrite <- (finish_set_pc c t s PMain), <- (finish_set_pc c t s' PMain). now rewrite H. Qed.

Lemma bind_inv {A B} (m : D A) (f : A -> D B) s evs r :
  bind m f s evs = Some r -> exists a s1 evs1, m s evs = Some (a, s1, evs1) /\ f a s1 evs1 = Some r.
Proof. unfold bind. destruct (m s evs) as [[[a s1] evs1]|]; [|discriminate]. intros H. now exists a, s1, evs1. Qed.

Ltac binv H :=
  let a := fresh "a" in let s1 := fresh "s" in let e1 := fresh "evs" in let H1 := fresh "H" in
  apply bind_inv in H as (a & s1 & e1 & H1 & H).

(* gsc / lsc verdicts do not look at the control point *)
Lemma gsc_eval_set_pc g H s a : gsc_eval g H (set_pc s a) = gsc_eval g H s.
Proof. induction g; simpl; try reflexivity. now rewrite IHg1, IHg2. Qed.

(* the level (hence kind, generations, lsc) of a deme is not changed by the updates a deme run makes *)
Lemma lvl_upd d i f ds : (forall x, d_lvl (f x) = d_lvl x) -> d_lvl (dnth d (upd i f ds)) = d_lvl (dnth d ds).
Proof. intros Hf. rewrite dnth_upd. destruct (_ && _); auto. Qed.
Lemma lvl_add_evals n k x : d_lvl (add_evals n k x) = d_lvl x. Proof. reflexivity. Qed.
Lemma lvl_append_meta x : d_lvl (append_meta x) = d_lvl x. Proof. reflexivity. Qed.
Lemma lvl_deactivate x : d_lvl (deactivate x) = d_lvl x. Proof. reflexivity. Qed.

(* ---------------------------------------------------------------- inversion of the primitives *)
Definition seen_or (m : st) (v : bool) : st :=
  with_state m (mcount m) (demes m) (pc m) (seen m || v) (steps m) (clock m) (born_after_seen m) (last_round m).
Definition gen_st (m : st) (d n : nat) : st :=
  with_state m (mcount m) (upd d (add_evals n (b2n (seen m))) (demes m)) (pc m) (seen m) (steps m) (clock m + n) (born_after_seen m) (last_round m).

Lemma p_gsc_inv c m p evs v s1 r :
  p_gsc c (mk m p) evs = Some (v, s1, r) ->
  evs = EGsc v :: r /\ s1 = mk (seen_or m v) p /\
  (negb (consistent (gsc_eval (gsc c) (height c) m) v) || (seen m && negb v)) = false.
Proof.
  unfold p_gsc. destruct evs as [|[w| | | | |] r']; try discriminate. cbn [ms].
  destruct (negb _ || _) eqn:E; [discriminate|]. intros H. injection H as <- <- <-. auto.
Qed.
Lemma p_lsc_inv c d m p evs v s1 r :
  p_lsc c d (mk m p) evs = Some (v, s1, r) ->
  evs = ELsc v :: r /\ s1 = mk m p /\ negb (consistent (lsc_eval (lsc_of c (d_lvl (dnth d (demes m)))) d (demes m)) v) = false.
Proof.
  unfold p_lsc, deme_of. destruct evs as [|[| |w| | |] r']; try discriminate. cbn [ms].
  destruct (negb _) eqn:E; [discriminate|]. intros H. injection H as <- <- <-. auto.
Qed.
Lemma p_cma_inv m p evs v s1 r : p_cma_stop (mk m p) evs = Some (v, s1, r) -> evs = ECma v :: r /\ s1 = mk m p.
Proof. unfold p_cma_stop. destruct evs as [|[| | |w| |] r']; try discriminate. intros H. injection H as <- <- <-. auto. Qed.
Lemma p_iter_inv d m p evs s1 r : p_engine_iter d (mk m p) evs = Some (tt, s1, r) -> exists n, evs = EGen n :: r /\ s1 = mk (gen_st m d n) p.
Proof. unfold p_engine_iter. destruct evs as [|[|n| | | |] r']; try discriminate. intros H. injection H as <- <-. now exists n. Qed.


(* what a deme's run never changes: the level and the hibernation flag of every deme (and the number of demes) *)
Definition shape (m : st) : list (nat * bool) := map (fun x => (d_lvl x, d_hib x)) (demes m).
Lemma map_upd_inv {B} (g : deme -> B) i f ds : (forall x, g (f x) = g x) -> map g (upd i f ds) = map g ds.
Proof. intros Hf. revert i; induction ds as [|x r IH]; intros [|i]; simpl; rewrite ?Hf, ?IH; reflexivity. Qed.
Lemma shape_lvl d m m' : shape m' = shape m -> d_lvl (dnth d (demes m')) = d_lvl (dnth d (demes m)).
Proof.
  unfold shape, dnth. intros H. assert (E : map d_lvl (demes m') = map d_lvl (demes m)).
  { transitivity (map fst (map (fun x => (d_lvl x, d_hib x)) (demes m'))); [now rewrite map_map|]. rewrite H. now rewrite map_map. }
  rewrite <- !(map_nth d_lvl). now rewrite E.
Qed.
Lemma shape_hib d m m' : shape m' = shape m -> d_hib (dnth d (demes m')) = d_hib (dnth d (demes m)).
Proof.
  unfold shape, dnth. intros H. assert (E : map d_hib (demes m') = map d_hib (demes m)).
  { transitivity (map snd (map (fun x => (d_lvl x, d_hib x)) (demes m'))); [now rewrite map_map|]. rewrite H. now rewrite map_map. }
  rewrite <- !(map_nth d_hib). now rewrite E.
Qed.
Lemma shape_length m m' : shape m' = shape m -> length (demes m') = length (demes m).
Proof. unfold shape. intros H. apply (f_equal (@length _)) in H. now rewrite !map_length in H. Qed.
Lemma shape_gen_st m d n : shape (gen_st m d n) = shape m.
Proof. unfold shape, gen_st. cbn [demes with_state]. apply map_upd_inv. reflexivity. Qed.
Lemma shape_seen_or m v : shape (seen_or m v) = shape m. Proof. reflexivity. Qed.

(* ---------------------------------------------------------------- one deme's metaepoch *)
Section DemeSim.
  Variables (c : cfg) (t : list nat) (d : nat).
  Definition at_ (m : st) (g : nat) (sub : dsub) : st := set_pc m (PDeme t d g sub).
  Definition lvl (m : st) : nat := d_lvl (dnth d (demes m)).
  Definition app_meta (m : st) : st := set_demes m (upd d append_meta (demes m)).
  Definition deact (m : st) : st := set_demes m (upd d deactivate (demes m)).

  Lemma lvl_gen_st m n : lvl (gen_st m d n) = lvl m.
  Proof. unfold lvl, gen_st. cbn [demes with_state]. apply lvl_upd. reflexivity. Qed.
  Lemma lvl_seen_or m v : lvl (seen_or m v) = lvl m. Proof. reflexivity. Qed.
  Lemma lvl_app_meta m : lvl (app_meta m) = lvl m.
  Proof. unfold lvl, app_meta. cbn [demes set_demes with_state]. apply lvl_upd. reflexivity. Qed.
  Lemma shape_app_meta m : shape (app_meta m) = shape m.
  Proof. unfold shape, app_meta. cbn [demes set_demes with_state]. apply map_upd_inv. reflexivity. Qed.
  Lemma shape_deact m : shape (deact m) = shape m.
  Proof. unfold shape, deact. cbn [demes set_demes with_state]. apply map_upd_inv. reflexivity. Qed.

  Lemma step_gen m g n : kind_of c (lvl m) <> KSampler -> step c (at_ m g SGen) (EGen n) = Some (at_ (gen_st m d n) (S g) SGsc).
  Proof. intros K. unfold step, at_, lvl in *. cbn [pc set_pc with_state demes]. destruct (kind_of c _); try congruence; reflexivity. Qed.
  Lemma step_gen_sampler m g n : kind_of c (lvl m) = KSampler -> step c (at_ m g SGen) (EGen n) = Some (at_ (app_meta (gen_st m d n)) (S g) SGsc).
  Proof. intros K. unfold step, at_, lvl in *. cbn [pc set_pc with_state demes]. rewrite K. reflexivity. Qed.

  (* the consult after an engine iteration *)
  Lemma step_gsc_true m g :
    (negb (consistent (gsc_eval (gsc c) (height c) m) true) || (seen m && negb true)) = false -> kind_of c (lvl m) <> KSampler ->
    step c (at_ m g SGsc) (EGsc true) = Some (finish c t (deact (app_meta (seen_or m true)))).
  Proof.
    intros G K. unfold step, at_. cbn [pc set_pc with_state demes]. rewrite gsc_eval_set_pc. fold (set_pc m (PDeme t d g SGsc)).
    cbn [seen set_pc with_state]. rewrite G. fold (lvl m). destruct (kind_of c (lvl m)); try congruence;
    (etransitivity; [|apply f_equal, finish_set_pc]; reflexivity).
  Qed.

  Lemma step_gsc_false_pop m g :
    (negb (consistent (gsc_eval (gsc c) (height c) m) false) || (seen m && negb false)) = false -> kind_of c (lvl m) = KPop ->
    step c (at_ m g SGsc) (EGsc false) =
    Some (if g <? gens_of c (lvl m) then at_ (seen_or m false) g SGen else at_ (app_meta (seen_or m false)) g SLsc).
  Proof.
    intros G K. unfold step, at_. cbn [pc set_pc with_state demes]. rewrite gsc_eval_set_pc. fold (set_pc m (PDeme t d g SGsc)).
    cbn [seen set_pc with_state]. rewrite G. fold (lvl m). rewrite K. destruct (g <? _); reflexivity.
  Qed.
  Lemma step_gsc_false_cma m g :
    (negb (consistent (gsc_eval (gsc c) (height c) m) false) || (seen m && negb false)) = false -> kind_of c (lvl m) = KCma ->
    step c (at_ m g SGsc) (EGsc false) = Some (at_ (seen_or m false) g SCma).
  Proof.
    intros G K. unfold step, at_. cbn [pc set_pc with_state demes]. rewrite gsc_eval_set_pc. fold (set_pc m (PDeme t d g SGsc)).
    cbn [seen set_pc with_state]. rewrite G. fold (lvl m). rewrite K. reflexivity.
  Qed.
  Lemma step_gsc_false_sampler m g :
    (negb (consistent (gsc_eval (gsc c) (height c) m) false) || (seen m && negb false)) = false -> kind_of c (lvl m) = KSampler ->
    step c (at_ m g SGsc) (EGsc false) = Some (at_ (seen_or m false) g SLsc).
  Proof.
    intros G K. unfold step, at_. cbn [pc set_pc with_state demes]. rewrite gsc_eval_set_pc. fold (set_pc m (PDeme t d g SGsc)).
    cbn [seen set_pc with_state]. rewrite G. fold (lvl m). rewrite K. reflexivity.
  Qed.
  Lemma step_gsc_true_sampler m g :
    (negb (consistent (gsc_eval (gsc c) (height c) m) true) || (seen m && negb true)) = false -> kind_of c (lvl m) = KSampler ->
    step c (at_ m g SGsc) (EGsc true) = Some (finish c t (deact (seen_or m true))).
  Proof.
    intros G K. unfold step, at_. cbn [pc set_pc with_state demes]. rewrite gsc_eval_set_pc. fold (set_pc m (PDeme t d g SGsc)).
    cbn [seen set_pc with_state]. rewrite G. fold (lvl m). rewrite K.
    etransitivity; [|apply f_equal, finish_set_pc]; reflexivity.
  Qed.
  Lemma step_lsc m g v :
    negb (consistent (lsc_eval (lsc_of c (lvl m)) d (demes m)) v) = false ->
    step c (at_ m g SLsc) (ELsc v) =
    Some (if v then finish c t (deact m) else match kind_of c (lvl m) with KCma => at_ m g SCma2 | _ => finish c t m end).
  Proof.
    intros G. unfold step, at_. cbn [pc set_pc with_state demes]. fold (lvl m). rewrite G. destruct v.
    - etransitivity; [|apply f_equal, finish_set_pc]; reflexivity.
    - destruct (kind_of c (lvl m)); try reflexivity; (etransitivity; [|apply f_equal, finish_set_pc]; reflexivity).
  Qed.
  Lemma step_cma m g v :
    step c (at_ m g SCma) (ECma v) =
    Some (if v then finish c t (deact (app_meta m)) else if g <? gens_of c (lvl m) then at_ m g SGen else at_ (app_meta m) g SLsc).
  Proof.
    unfold step, at_. cbn [pc set_pc with_state demes]. fold (lvl m). destruct v.
    - etransitivity; [|apply f_equal, finish_set_pc]; reflexivity.
    - destruct (g <? _); reflexivity.
  Qed.
  Lemma step_cma2 m g v : step c (at_ m g SCma2) (ECma v) = Some (if v then finish c t (deact m) else finish c t m).
  Proof.
    unfold step, at_. cbn [pc set_pc with_state demes]. destruct v; (etransitivity; [|apply f_equal, finish_set_pc]; reflexivity).
  Qed.
End DemeSim.

Lemma run_one c s e s' : step c s e = Some s' -> run c s [e] = Some s'.
Proof. intros H. simpl. now rewrite H. Qed.
Lemma run_cons c s e r : run c s (e :: r) = match step c s e with Some s' => run c s' r | None => None end.
Proof. reflexivity. Qed.
Lemma ret_inv {A} (a : A) s evs r : ret a s evs = Some r -> r = (a, s, evs).
Proof. unfold ret. congruence. Qed.

Section DemeRun.
  Variables (c : cfg) (t : list nat) (d : nat).
  Local Notation AT := (at_ t d).
  Local Notation LVL := (lvl d).

  Lemma pop_loop_sim gens : forall fuel g m p evs r s1 rest,
    kind_of c (LVL m) = KPop -> gens = gens_of c (LVL m) -> g < gens ->
    while_ fuel (fun g => ret (g <? gens)) (pop_body c d) g (mk m p) evs = Some (r, s1, rest) ->
    exists used m', evs = used ++ rest /\ s1 = mk m' p /\ shape m' = shape m /\
      run c (AT m g SGen) used = Some (if snd r then finish c t m' else AT (app_meta d m') (fst r) SLsc).
  Proof.
    induction fuel as [|f IH]; intros g m p evs r s1 rest K G Hg H; [discriminate|].
    cbn [while_] in H. apply bind_inv in H as (b & sa & ea & Hc & H). apply ret_inv in Hc. injection Hc as -> -> ->.
    assert (E : g <? gens = true) by (apply Nat.ltb_lt; lia). rewrite E in H. clear E.
    apply bind_inv in H as (rb & sb & eb & Hb & H). unfold pop_body in Hb.
    apply bind_inv in Hb as ([] & s2 & e2 & Hi & Hb). apply p_iter_inv in Hi as (n & -> & ->).
    apply bind_inv in Hb as (v & s3 & e3 & Hg3 & Hb). apply p_gsc_inv in Hg3 as (-> & -> & Gv).
    assert (Kn : kind_of c (LVL (gen_st m d n)) <> KSampler) by (rewrite lvl_gen_st; congruence).
    destruct v.
    - (* the condition holds: append, deactivate, return *)
      apply bind_inv in Hb as ([] & s4 & e4 & Ha & Hb). apply bind_inv in Hb as ([] & s5 & e5 & Hd & Hb).
      apply ret_inv in Hb. injection Hb as -> -> ->. cbn [snd] in H.
      apply ret_inv in H. injection H as -> -> ->.
      unfold p_append_meta in Ha. injection Ha as <- <-. unfold p_deactivate in Hd. injection Hd as <- <-.
      exists [EGen n; EGsc true]. exists (deact d (app_meta d (seen_or (gen_st m d n) true))).
      split; [reflexivity|]. split; [reflexivity|]. split.
      + now rewrite shape_deact, shape_app_meta, shape_seen_or, shape_gen_st.
      + cbn [snd]. rewrite run_cons, step_gen by congruence. rewrite run_cons, step_gsc_true; auto.
    - apply ret_inv in Hb. injection Hb as -> -> ->. cbn [snd fst] in H.
      pose proof (step_gsc_false_pop c t d (gen_st m d n) (S g) Gv) as SG. rewrite lvl_gen_st in SG. specialize (SG K). rewrite <- G in SG.
      destruct (Nat.ltb_spec (S g) gens) as [Hlt|Hge].
      + apply IH in H as (used & m' & -> & -> & L & R); try assumption.
        * exists (EGen n :: EGsc false :: used), m'. split; [reflexivity|]. split; [reflexivity|]. split; [now rewrite L, shape_seen_or, shape_gen_st|].
          rewrite run_cons, step_gen by congruence. rewrite run_cons, SG. exact R.
        * rewrite lvl_seen_or, lvl_gen_st. exact K.
        * now rewrite lvl_seen_or, lvl_gen_st.
      + destruct f as [|f']; [discriminate|]. cbn [while_] in H. apply bind_inv in H as (b & sa & ea & Hc & H).
        apply ret_inv in Hc. injection Hc as -> -> ->.
        assert (E : S g <? gens = false) by (apply Nat.ltb_ge; lia). rewrite E in H. clear E. apply ret_inv in H. injection H as -> -> ->.
        exists [EGen n; EGsc false]. eexists. split; [reflexivity|]. split; [reflexivity|]. split; [now rewrite shape_seen_or, shape_gen_st|].
        cbn [snd fst]. rewrite run_cons, step_gen by congruence. rewrite run_cons, SG. reflexivity.
  Qed.

  Lemma run_pop_sim fuel m p evs s1 rest :
    kind_of c (LVL m) = KPop -> 1 <= gens_of c (LVL m) ->
    run_pop c fuel d (mk m p) evs = Some (tt, s1, rest) ->
    exists used m', evs = used ++ rest /\ s1 = mk m' p /\ shape m' = shape m /\ run c (AT m 0 SGen) used = Some (finish c t m').
  Proof.
    intros K G H. unfold run_pop in H. apply bind_inv in H as (gens & sa & ea & Hr & H).
    unfold r_generations, deme_of in Hr. cbn [ms mk] in Hr. injection Hr as <- <- <-.
    apply bind_inv in H as (r & sb & eb & Hl & H).
    apply pop_loop_sim in Hl as (used & m' & -> & -> & L & R); auto.
    destruct (snd r).
    - apply ret_inv in H. injection H as -> ->. exists used, m'. auto.
    - apply bind_inv in H as ([] & s2 & e2 & Ha & H). unfold p_append_meta in Ha. injection Ha as <- <-.
      apply bind_inv in H as (v & s3 & e3 & Hv & H). apply p_lsc_inv in Hv as (-> & -> & Gv).
      fold (app_meta d m') in *. fold (lvl d (app_meta d m')) in Gv.
      pose proof (step_lsc c t d (app_meta d m') (fst r) v Gv) as SL. rewrite lvl_app_meta in SL.
      assert (KK : kind_of c (LVL m') = KPop) by (unfold lvl; rewrite (shape_lvl d m m' L); exact K). rewrite KK in SL.
      destruct v.
      + unfold p_deactivate in H. injection H as <- <-. exists (used ++ [ELsc true]), (deact d (app_meta d m')).
        split; [now rewrite <- app_assoc|]. split; [reflexivity|]. split; [now rewrite shape_deact, shape_app_meta|].
        rewrite run_app, R. simpl. now rewrite SL.
      + apply ret_inv in H. injection H as -> ->. exists (used ++ [ELsc false]), (app_meta d m').
        split; [now rewrite <- app_assoc|]. split; [reflexivity|]. split; [now rewrite shape_app_meta|].
        rewrite run_app, R. simpl. now rewrite SL.
  Qed.

  Lemma or_inv (a b : D bool) s evs v s' r :
    or_ a b s evs = Some (v, s', r) ->
    (a s evs = Some (true, s', r) /\ v = true) \/ (exists s1 e1, a s evs = Some (false, s1, e1) /\ b s1 e1 = Some (v, s', r)).
  Proof.
    unfold or_. intros H. apply bind_inv in H as (x & s1 & e1 & Ha & H). destruct x.
    - apply ret_inv in H. injection H as -> -> ->. now left.
    - right. now exists s1, e1.
  Qed.

  Lemma cma_loop_sim gens : forall fuel g m p evs r s1 rest,
    kind_of c (LVL m) = KCma -> gens = gens_of c (LVL m) -> g < gens ->
    while_ fuel (fun g => ret (g <? gens)) (cma_body c d) g (mk m p) evs = Some (r, s1, rest) ->
    exists used m', evs = used ++ rest /\ s1 = mk m' p /\ shape m' = shape m /\
      run c (AT m g SGen) used = Some (if snd r then finish c t m' else AT (app_meta d m') (fst r) SLsc).
  Proof.
    induction fuel as [|f IH]; intros g m p evs r s1 rest K G Hg H; [discriminate|].
    cbn [while_] in H. apply bind_inv in H as (b & sa & ea & Hc & H). apply ret_inv in Hc. injection Hc as -> -> ->.
    assert (E : g <? gens = true) by (apply Nat.ltb_lt; lia). rewrite E in H. clear E.
    apply bind_inv in H as (rb & sb & eb & Hb & H). unfold cma_body in Hb.
    apply bind_inv in Hb as ([] & s2 & e2 & Hi & Hb). apply p_iter_inv in Hi as (n & -> & ->).
    apply bind_inv in Hb as (v & s3 & e3 & Hg3 & Hb).
    assert (Kn : kind_of c (LVL (gen_st m d n)) <> KSampler) by (rewrite lvl_gen_st; congruence).
    assert (Kc : kind_of c (LVL (gen_st m d n)) = KCma) by (rewrite lvl_gen_st; congruence).
    apply or_inv in Hg3 as [(Hg3 & ->)|(sx & ex & Hg3 & Hs)].
    - (* the global condition holds *)
      apply p_gsc_inv in Hg3 as (-> & -> & Gv).
      apply bind_inv in Hb as ([] & s4 & e4 & Ha & Hb). apply bind_inv in Hb as ([] & s5 & e5 & Hd & Hb).
      apply ret_inv in Hb. injection Hb as -> -> ->. cbn [snd] in H. apply ret_inv in H. injection H as -> -> ->.
      unfold p_append_meta in Ha. injection Ha as <- <-. unfold p_deactivate in Hd. injection Hd as <- <-.
      exists [EGen n; EGsc true]. exists (deact d (app_meta d (seen_or (gen_st m d n) true))).
      split; [reflexivity|]. split; [reflexivity|]. split; [now rewrite shape_deact, shape_app_meta, shape_seen_or, shape_gen_st|].
      cbn [snd]. rewrite run_cons, step_gen by congruence. rewrite run_cons, step_gsc_true; auto.
    - apply p_gsc_inv in Hg3 as (-> & -> & Gv). apply p_cma_inv in Hs as (-> & ->).
      pose proof (step_gsc_false_cma c t d (gen_st m d n) (S g) Gv Kc) as SG.
      pose proof (step_cma c t d (seen_or (gen_st m d n) false) (S g) v) as SC. rewrite lvl_seen_or, lvl_gen_st, <- G in SC.
      destruct v.
      + (* CMA-ES stops itself *)
        apply bind_inv in Hb as ([] & s4 & e4 & Ha & Hb). apply bind_inv in Hb as ([] & s5 & e5 & Hd & Hb).
        apply ret_inv in Hb. injection Hb as -> -> ->. cbn [snd] in H. apply ret_inv in H. injection H as -> -> ->.
        unfold p_append_meta in Ha. injection Ha as <- <-. unfold p_deactivate in Hd. injection Hd as <- <-.
        exists [EGen n; EGsc false; ECma true]. exists (deact d (app_meta d (seen_or (gen_st m d n) false))).
        split; [reflexivity|]. split; [reflexivity|]. split; [now rewrite shape_deact, shape_app_meta, shape_seen_or, shape_gen_st|].
        cbn [snd]. rewrite run_cons, step_gen by congruence. rewrite run_cons, SG. rewrite run_cons, SC. reflexivity.
      + apply ret_inv in Hb. injection Hb as -> -> ->. cbn [snd fst] in H.
        destruct (Nat.ltb_spec (S g) gens) as [Hlt|Hge].
        * assert (K' : kind_of c (LVL (seen_or (gen_st m d n) false)) = KCma) by (rewrite lvl_seen_or, lvl_gen_st; exact K).
          assert (G' : gens = gens_of c (LVL (seen_or (gen_st m d n) false))) by (now rewrite lvl_seen_or, lvl_gen_st).
          destruct (IH _ _ _ _ _ _ _ K' G' Hlt H) as (used & m' & -> & -> & L & R).
          exists (EGen n :: EGsc false :: ECma false :: used), m'. split; [reflexivity|]. split; [reflexivity|].
          split; [now rewrite L, shape_seen_or, shape_gen_st|].
          rewrite run_cons, step_gen by congruence. rewrite run_cons, SG. rewrite run_cons, SC. exact R.
        * destruct f as [|f']; [discriminate|]. cbn [while_] in H. apply bind_inv in H as (b & sa & ea & Hc & H).
          apply ret_inv in Hc. injection Hc as -> -> ->.
          assert (E : S g <? gens = false) by (apply Nat.ltb_ge; lia). rewrite E in H. clear E. apply ret_inv in H. injection H as -> -> ->.
          exists [EGen n; EGsc false; ECma false]. eexists. split; [reflexivity|]. split; [reflexivity|].
          split; [now rewrite shape_seen_or, shape_gen_st|].
          cbn [snd fst]. rewrite run_cons, step_gen by congruence. rewrite run_cons, SG. rewrite run_cons, SC. reflexivity.
  Qed.

  Lemma run_cma_sim fuel m p evs s1 rest :
    kind_of c (LVL m) = KCma -> 1 <= gens_of c (LVL m) ->
    run_cma c fuel d (mk m p) evs = Some (tt, s1, rest) ->
    exists used m', evs = used ++ rest /\ s1 = mk m' p /\ shape m' = shape m /\ run c (AT m 0 SGen) used = Some (finish c t m').
  Proof.
    intros K G H. unfold run_cma in H. apply bind_inv in H as (gens & sa & ea & Hr & H).
    unfold r_generations, deme_of in Hr. cbn [ms mk] in Hr. injection Hr as <- <- <-.
    apply bind_inv in H as (r & sb & eb & Hl & H).
    apply cma_loop_sim in Hl as (used & m' & -> & -> & L & R); auto.
    destruct (snd r).
    - apply ret_inv in H. injection H as -> ->. exists used, m'. auto.
    - apply bind_inv in H as ([] & s2 & e2 & Ha & H). unfold p_append_meta in Ha. injection Ha as <- <-.
      apply bind_inv in H as (v & s3 & e3 & Hv & H). fold (app_meta d m') in *.
      assert (KK : kind_of c (LVL m') = KCma) by (unfold lvl; rewrite (shape_lvl d m m' L); exact K).
      apply or_inv in Hv as [(Hv & ->)|(sx & ex & Hv & Hs)].
      + apply p_lsc_inv in Hv as (-> & -> & Gv). fold (lvl d (app_meta d m')) in Gv.
        pose proof (step_lsc c t d (app_meta d m') (fst r) true Gv) as SL.
        unfold p_deactivate in H. injection H as <- <-. exists (used ++ [ELsc true]), (deact d (app_meta d m')).
        split; [now rewrite <- app_assoc|]. split; [reflexivity|]. split; [now rewrite shape_deact, shape_app_meta|].
        rewrite run_app, R. simpl. now rewrite SL.
      + apply p_lsc_inv in Hv as (-> & -> & Gv). fold (lvl d (app_meta d m')) in Gv. apply p_cma_inv in Hs as (-> & ->).
        pose proof (step_lsc c t d (app_meta d m') (fst r) false Gv) as SL. rewrite lvl_app_meta, KK in SL.
        pose proof (step_cma2 c t d (app_meta d m') (fst r) v) as S2.
        destruct v.
        * unfold p_deactivate in H. injection H as <- <-. exists (used ++ [ELsc false; ECma true]), (deact d (app_meta d m')).
          split; [now rewrite <- app_assoc|]. split; [reflexivity|]. split; [now rewrite shape_deact, shape_app_meta|].
          rewrite run_app, R. rewrite run_cons, SL. rewrite run_cons, S2. reflexivity.
        * apply ret_inv in H. injection H as -> ->. exists (used ++ [ELsc false; ECma false]), (app_meta d m').
          split; [now rewrite <- app_assoc|]. split; [reflexivity|]. split; [now rewrite shape_app_meta|].
          rewrite run_app, R. rewrite run_cons, SL. rewrite run_cons, S2. reflexivity.
  Qed.

  Lemma run_sampler_sim m p evs s1 rest g :
    kind_of c (LVL m) = KSampler ->
    run_sampler c d (mk m p) evs = Some (tt, s1, rest) ->
    exists used m', evs = used ++ rest /\ s1 = mk m' p /\ shape m' = shape m /\ run c (AT m g SGen) used = Some (finish c t m').
  Proof.
    intros K H. unfold run_sampler in H.
    apply bind_inv in H as ([] & s2 & e2 & Hi & H). apply p_iter_inv in Hi as (n & -> & ->).
    apply bind_inv in H as ([] & s3 & e3 & Ha & H). unfold p_append_meta in Ha. injection Ha as <- <-.
    fold (app_meta d (gen_st m d n)) in *.
    apply bind_inv in H as (v & s4 & e4 & Hv & H).
    assert (KK : kind_of c (LVL (app_meta d (gen_st m d n))) = KSampler) by (now rewrite lvl_app_meta, lvl_gen_st).
    pose proof (step_gen_sampler c t d m g n K) as SG.
    apply or_inv in Hv as [(Hv & ->)|(sx & ex & Hv & Hs)].
    - apply p_gsc_inv in Hv as (-> & -> & Gv). unfold p_deactivate in H. injection H as <- <-.
      exists [EGen n; EGsc true], (deact d (seen_or (app_meta d (gen_st m d n)) true)).
      split; [reflexivity|]. split; [reflexivity|]. split; [now rewrite shape_deact, shape_seen_or, shape_app_meta, shape_gen_st|].
      pose proof (step_gsc_true_sampler c t d (app_meta d (gen_st m d n)) (S g)) as ST. specialize (ST Gv KK).
      rewrite run_cons, SG. rewrite run_cons, ST. reflexivity.
    - apply p_gsc_inv in Hv as (-> & -> & Gv). apply p_lsc_inv in Hs as (-> & -> & Gl).
      pose proof (step_gsc_false_sampler c t d (app_meta d (gen_st m d n)) (S g)) as SF. specialize (SF Gv KK).
      pose proof (step_lsc c t d (seen_or (app_meta d (gen_st m d n)) false) (S g) v Gl) as SL.
      rewrite lvl_seen_or, KK in SL.
      destruct v.
      + unfold p_deactivate in H. injection H as <- <-.
        exists [EGen n; EGsc false; ELsc true], (deact d (seen_or (app_meta d (gen_st m d n)) false)).
        split; [reflexivity|]. split; [reflexivity|]. split; [now rewrite shape_deact, shape_seen_or, shape_app_meta, shape_gen_st|].
        rewrite run_cons, SG. rewrite run_cons, SF. rewrite run_cons, SL. reflexivity.
      + apply ret_inv in H. injection H as -> ->.
        exists [EGen n; EGsc false; ELsc false], (seen_or (app_meta d (gen_st m d n)) false).
        split; [reflexivity|]. split; [reflexivity|]. split; [now rewrite shape_seen_or, shape_app_meta, shape_gen_st|].
        rewrite run_cons, SG. rewrite run_cons, SF. rewrite run_cons, SL. reflexivity.
  Qed.

  Lemma run_local_sim m p evs s1 rest g :
    run_local d (mk m p) evs = Some (tt, s1, rest) ->
    exists used m', evs = used ++ rest /\ s1 = mk m' p /\ shape m' = shape m /\ run c (AT m g SLocal) used = Some (finish c t m').
  Proof.
    intros H. unfold run_local in H.
    apply bind_inv in H as (n & s2 & e2 & Hi & H). unfold p_local_search in Hi.
    destruct evs as [|[| | | |n'|] r']; try discriminate. cbn [ms mk] in Hi. injection Hi as -> <- <-.
    apply bind_inv in H as ([] & s3 & e3 & Hc & H). unfold p_count_evals in Hc. injection Hc as <- <-.
    apply bind_inv in H as ([] & s4 & e4 & Ha & H). unfold p_append_meta in Ha. injection Ha as <- <-.
    unfold p_deactivate in H. injection H as <- <-.
    exists [ELocal n]. eexists. split; [reflexivity|]. split; [reflexivity|]. split.
    - unfold shape. cbn [ms with_ms demes set_demes with_state mk]. rewrite !map_upd_inv by reflexivity. reflexivity.
    - rewrite run_cons. unfold step, at_. cbn [pc set_pc with_state demes seen mcount steps clock born_after_seen last_round].
      cbn [run]. apply f_equal, finish_pc_irrel. reflexivity.
  Qed.
End DemeRun.
