(* Proofs/GenEquivMinimize.v — the plan TRANSLATED from the current pyhms/hms.py minimize() (Gen/GenMinimize.v):
   a budget (given, or the default when neither maxfun nor maxiter is given; 0 IS a budget) puts ONE evaluation-cutoff wrapper with a fresh
   counter on the problem both levels share, makes the run stop on the evaluation count, and reports that wrapper's counter as nfev; with
   maxiter alone there is no cutoff and the tree's counter is reported.  Then, by the wrapper-stack theorems: whatever requests the demes
   make, fun is invoked at most `budget` times, and the reported nfev is exactly the number of invocations. *)
From Coq Require Import ZArith List Bool Lia.
From HV Require Import F64 WMonad Problem ProblemFacts Minimize GenMinimize.
Import ListNotations.
Local Open Scope Z_scope.

Definition budget_plan (b : Z) : plan :=
  {| pl_stack := [(KCutoff, fresh_cutoff b)]; pl_maximize := false; pl_gsc := ByEvals b; pl_nfev := FromCutoffWrapper; pl_levels_share_problem := true;
     pl_x_is_tree_best := true; pl_fun_is_tree_best := true; pl_nit_is_metaepochs := true |}.
Theorem plan_with_maxfun b maxiter : gen_minimize_plan (Some b) maxiter = budget_plan b.
Proof. now destruct maxiter. Qed.
Theorem plan_default : exists b, gen_minimize_plan None None = budget_plan b /\ 0 < b.
Proof. eexists. split; [reflexivity|]. reflexivity. Qed.
Theorem plan_with_maxiter_only k : gen_minimize_plan None (Some k) =
  {| pl_stack := []; pl_maximize := false; pl_gsc := ByMetaepochs (Some k); pl_nfev := FromTree; pl_levels_share_problem := true;
     pl_x_is_tree_best := true; pl_fun_is_tree_best := true; pl_nit_is_metaepochs := true |}.
Proof. reflexivity. Qed.

Section Budget.
  Context {G : Type} (f : G -> F).
  (* the budget is hard: at most b invocations of fun, whatever is requested *)
  Theorem minimize_budget_hard b maxiter (b0 : base G) xs : 0 <= b ->
    (length (b_calls (snd (final f (pl_stack (gen_minimize_plan (Some b) maxiter)) b0 xs))) <= length (b_calls b0) + Z.to_nat b)%nat.
  Proof.
    intros Hb. rewrite plan_with_maxfun. cbn [pl_stack budget_plan].
    pose proof (cutoff_hard f [(KCutoff, fresh_cutoff b)] b0 xs 0 (fresh_cutoff b) eq_refl) as H. cbn [eval_cutoff n_evals fresh_cutoff] in H.
    now rewrite Z.sub_0_r in H.
  Qed.
  (* nfev: the cutoff wrapper's counter after the run = the number of invocations of fun during the run *)
  Lemma single_cutoff_counts : forall xs (s : wobj) (b0 : base G),
    exists s', fst (final f [(KCutoff, s)] b0 xs) = [(KCutoff, s')] /\
               n_evals s' - n_evals s = Z.of_nat (length (b_calls (snd (final f [(KCutoff, s)] b0 xs))) - length (b_calls b0)).
  Proof.
    induction xs as [|x xs IH]; intros s b0.
    - exists s. cbn. split; [reflexivity|]. lia.
    - unfold final in *. rewrite run_calls_cons. cbn [eval_stack]. unfold m_step. cbn [w_self w_inner refuses].
      destruct (n_evals s >=? eval_cutoff s) eqn:R; cbn [w_self w_inner fst snd i_eval i_max eval_stack local].
      + destruct (IH s b0) as (s' & E1 & E2). destruct (run_calls f [(KCutoff, s)] b0 xs) as [vs r] eqn:E. cbn [snd] in *. exists s'. split; assumption.
      + set (b1 := {| b_max := b_max b0; b_calls := b_calls b0 ++ [x] |}).
        destruct (IH (bump s) b1) as (s' & E1 & E2).
        assert (L : (length (b_calls b1) <= length (b_calls (snd (snd (run_calls f [(KCutoff, bump s)] b1 xs)))))%nat).
        { pose proof (calls_law f [(KCutoff, bump s)] b1 xs) as [C _]. unfold final in C. lia. }
        destruct (run_calls f [(KCutoff, bump s)] b1 xs) as [vs r] eqn:E. cbn [snd] in *.
        exists s'. split; [exact E1|]. cbn [n_evals bump] in E2.
        unfold b1 in *. cbn [b_calls] in *. rewrite app_length in *. cbn [length] in *. lia.
  Qed.
  Theorem minimize_nfev_is_the_number_of_calls b maxiter (b0 : base G) xs :
    pl_nfev (gen_minimize_plan (Some b) maxiter) = FromCutoffWrapper /\
    exists s', fst (final f (pl_stack (gen_minimize_plan (Some b) maxiter)) b0 xs) = [(KCutoff, s')] /\
               n_evals s' = Z.of_nat (length (b_calls (snd (final f (pl_stack (gen_minimize_plan (Some b) maxiter)) b0 xs))) - length (b_calls b0)).
  Proof.
    rewrite plan_with_maxfun. split; [reflexivity|]. cbn [pl_stack budget_plan].
    destruct (single_cutoff_counts xs (fresh_cutoff b) b0) as (s' & E1 & E2). exists s'. split; [exact E1|]. cbn [n_evals fresh_cutoff] in E2. lia.
  Qed.
End Budget.
