(* Proofs/GenEquivDemeLimit.v — DemeLimit TRANSLATED from the current pyhms/sprout/sprout_filters.py (Gen/GenDemeLimit.v) = deme_limit per parent *)
From Coq Require Import List Bool Arith ZArith Lia Permutation.
From HV Require Import Ord ListX Sprout SproutFacts FilterFacts Tree TreeLemmas DriverPrim SproutPrim DriverFacts GenEquivDriver GenEquivStops FilterDict.
Import ListNotations.

From HV Require Import GenDemeLimit.

(* ---------------------------------------------------------------- DemeLimit *)
Definition deme_limit_cmap (mx : bool) (limit : nat) (cm : cmap) : cmap := map (fun pk => (fst pk, deme_limit mx limit (snd pk))) cm.
Definition dl_entry (mx : bool) (limit : nat) (ks : list Z) : list Z := if limit <? length ks then firstn limit (sort_best_first mx ks) else ks.
Lemma dl_entry_eq mx limit ks : dl_entry mx limit ks = deme_limit mx limit ks.
Proof. unfold dl_entry, deme_limit, sort_best_first. destruct (limit <? length ks); [now rewrite firstn_map|reflexivity]. Qed.

Theorem DemeLimit_ok c fuel limit cm s : NoDup (cm_keys cm) ->
  answers (gen_DemeLimit c fuel limit cm) s (deme_limit_cmap (maximize c) limit cm).
Proof.
  intros N evs. unfold gen_DemeLimit, returned. dunf.
  rewrite (forl_fold (fun acc d => if limit <? length (cm_get acc d) then cm_set acc d (firstn limit (sort_best_first (maximize c) (cm_get acc d))) else acc)).
  - rewrite (update_keys_if (fun v => limit <? length v) (fun v => firstn limit (sort_best_first (maximize c) v)) (cm_keys cm) cm N N). cbn beta iota.
    f_equal. f_equal. f_equal. unfold deme_limit_cmap. apply map_ext_in. intros pk Hpk. unfold memb.
    assert (M : existsb (Nat.eqb (fst pk)) (cm_keys cm) = true) by (apply existsb_exists; exists (fst pk); split; [now apply in_map|apply Nat.eqb_refl]).
    rewrite M. f_equal. apply dl_entry_eq.
  - intros acc d s0 e0. unfold gen_DemeLimit_forl1. dunf. destruct (limit <? length (cm_get acc d)); reflexivity.
Qed.

