(* Proofs/FilterDict.v — dictionaries with distinct keys (lemmas shared by GenEquivLevelLimit / GenEquivDemeLimit / GenEquivFar).
   Originally: DemeLimit and LevelLimit TRANSLATED from /repo's current pyhms/sprout/sprout_filters.py (Gen/GenFilters.v)
   compute, on every candidate dictionary with distinct parents, exactly the filter models of Model/Sprout.v (deme_limit per parent,
   level_limit) that the HMS machine applies and that the C08 / C10 / C13 theorems are about — and they only look at the tree. *)
From Coq Require Import List Bool Arith ZArith Lia Permutation.
From HV Require Import Ord ListX Sprout SproutFacts FilterFacts Tree TreeLemmas DriverPrim SproutPrim DriverFacts GenEquivDriver GenEquivStops.
Import ListNotations.

(* ---------------------------------------------------------------- a dictionary with distinct keys *)
Lemma cm_get_in cm pk : NoDup (cm_keys cm) -> In pk cm -> cm_get cm (fst pk) = snd pk.
Proof.
  unfold cm_get, cm_keys. induction cm as [|q r IH]; intros N H; [contradiction|]. cbn [find map] in *. inversion N as [|? ? Nq Nr]; subst.
  destruct H as [->|H]; [now rewrite Nat.eqb_refl|].
  destruct (Nat.eqb_spec (fst q) (fst pk)) as [E|_]; [|now apply IH]. exfalso. apply Nq. rewrite E. now apply in_map.
Qed.
Lemma cm_get_map (h : nat -> list Z -> list Z) cm d :
  cm_get (map (fun pk => (fst pk, h (fst pk) (snd pk))) cm) d = if existsb (Nat.eqb d) (cm_keys cm) then h d (cm_get cm d) else [].
Proof.
  unfold cm_get, cm_keys. induction cm as [|q r IH]; [reflexivity|]. cbn [map find existsb fst snd].
  rewrite (Nat.eqb_sym d (fst q)). destruct (Nat.eqb_spec (fst q) d) as [->|_]; cbn [orb]; [reflexivity|exact IH].
Qed.
Lemma cm_keys_map (h : nat -> list Z -> list Z) cm : cm_keys (map (fun pk => (fst pk, h (fst pk) (snd pk))) cm) = cm_keys cm.
Proof. unfold cm_keys. rewrite map_map. reflexivity. Qed.

Definition memb (d : nat) (l : list nat) : bool := existsb (Nat.eqb d) l.
(* updating the entries of a duplicate-free list of keys one after the other = one map over the dictionary *)
Lemma update_keys (f : list Z -> list Z) : forall todo cm, NoDup todo -> NoDup (cm_keys cm) ->
  fold_left (fun acc d => cm_set acc d (f (cm_get acc d))) todo cm =
  map (fun pk => (fst pk, if memb (fst pk) todo then f (snd pk) else snd pk)) cm.
Proof.
  induction todo as [|d todo IH]; intros cm Nt Nc.
  - cbn. rewrite <- (map_id cm) at 1. apply map_ext. now intros [].
  - inversion Nt as [|? ? Nd Nt']; subst. cbn [fold_left].
    assert (E1 : cm_set cm d (f (cm_get cm d)) = map (fun pk => (fst pk, (fun k v => if Nat.eqb k d then f v else v) (fst pk) (snd pk))) cm).
    { unfold cm_set. apply map_ext_in. intros pk Hpk. destruct (Nat.eqb_spec (fst pk) d) as [<-|_]; [|now destruct pk].
      now rewrite (cm_get_in cm pk Nc Hpk). }
    rewrite E1, IH; [|exact Nt'|unfold cm_keys in *; rewrite map_map; exact Nc]. rewrite map_map. apply map_ext. intros pk. cbn [fst snd memb existsb].
    rewrite (Nat.eqb_sym (fst pk) d). destruct (Nat.eqb_spec d (fst pk)) as [<-|_]; cbn [orb]; [|reflexivity].
    assert (M : memb d todo = false).
    { destruct (memb d todo) eqn:M; [|reflexivity]. apply existsb_exists in M as (x & Hx & Ex). apply Nat.eqb_eq in Ex. subst. contradiction. }
    now rewrite M.
Qed.

Lemma forl_fold {X L} (g : L -> X -> L) (body : L -> X -> D L) :
  (forall l x s evs, body l x s evs = Some (g l x, s, evs)) ->
  forall xs l s evs, forl_ xs body l s evs = Some (fold_left g xs l, s, evs).
Proof. intros Hb. induction xs as [|x r IH]; intros l s evs; [reflexivity|]. cbn [forl_ fold_left]. unfold bind. rewrite Hb. apply IH. Qed.

Lemma cm_keys_set cm d ks : cm_keys (cm_set cm d ks) = cm_keys cm.
Proof. unfold cm_keys, cm_set. rewrite map_map. apply map_ext. intros pk. now destruct (Nat.eqb (fst pk) d). Qed.
Lemma cm_set_same cm d : NoDup (cm_keys cm) -> cm_set cm d (cm_get cm d) = cm.
Proof.
  intros N. unfold cm_set. rewrite <- (map_id cm) at 2. apply map_ext_in. intros pk Hpk.
  destruct (Nat.eqb_spec (fst pk) d) as [<-|_]; [|reflexivity]. rewrite (cm_get_in cm pk N Hpk). now destruct pk.
Qed.
Lemma fold_left_ext_inv {A B} (P : A -> Prop) (g1 g2 : A -> B -> A) :
  (forall a x, P a -> P (g2 a x)) -> (forall a x, P a -> g1 a x = g2 a x) -> forall xs a, P a -> fold_left g1 xs a = fold_left g2 xs a.
Proof. intros Hp He. induction xs as [|x r IH]; intros a Pa; [reflexivity|]. cbn [fold_left]. rewrite He by exact Pa. apply IH. now apply Hp. Qed.
(* the same with an update that is skipped when a test on the entry fails *)
Lemma update_keys_if (test : list Z -> bool) (f : list Z -> list Z) todo cm : NoDup todo -> NoDup (cm_keys cm) ->
  fold_left (fun acc d => if test (cm_get acc d) then cm_set acc d (f (cm_get acc d)) else acc) todo cm =
  map (fun pk => (fst pk, if memb (fst pk) todo then (if test (snd pk) then f (snd pk) else snd pk) else snd pk)) cm.
Proof.
  intros Nt Nc. rewrite <- (update_keys (fun v => if test v then f v else v) todo cm Nt Nc).
  apply (fold_left_ext_inv (fun a => NoDup (cm_keys a))); [| |exact Nc].
  - intros a x Pa. now rewrite cm_keys_set.
  - intros a x Pa. destruct (test (cm_get a x)); [reflexivity|]. symmetry. now apply cm_set_same.
Qed.

(* the level of a deme given by its index *)
Definition lvl_at (ds : list deme) (i : nat) : nat := d_lvl (dnth i ds).
