(* Proofs/GenEquivFilters.v — DemeLimit and LevelLimit TRANSLATED from /repo's current pyhms/sprout/sprout_filters.py (Gen/GenFilters.v)
   compute, on every candidate dictionary with distinct parents, exactly the filter models of Model/Sprout.v (deme_limit per parent,
   level_limit) that the HMS machine applies and that the C08 / C10 / C13 theorems are about — and they only look at the tree. *)
From Coq Require Import List Bool Arith ZArith Lia Permutation.
From HV Require Import Ord ListX Sprout SproutFacts FilterFacts Tree TreeLemmas DriverPrim SproutPrim DriverFacts GenEquivDriver GenEquivStops GenFilters.
Import ListNotations.

(* ---------------------------------------------------------------- a dictionary with distinct keys *)
Lemma cm_get_in cm pk : NoDup (cm_keys cm) -> In pk cm -> cm_get cm (fst pk) = snd pk.
Proof.
  unfold cm_get, cm_keys. induction cm as [|q r IH]; intros N H; [contradiction|]. cbn [find map] in *. inversion N as [|? ? Nq Nr]; subst.
  destruct H as [->|H]; [now rewrite Nat.eqb_refl|].
  destruct (Nat.eqb_spec (fst q) (fst pk)) as [E|_]; [|now apply IH]. exfalso. apply Nq. rewrite E. now apply in_map.
Qed.
Lemma cm_get_map (h : nat -> list Z -> list Z) cm d :
  cm_get (map (fun pk => (fst pk, h (fst pk) (snd pk))) cm) d = if existsb (Nat.eqb d) (cm_keys cm) then h d (cm_get cm d) else [].
Proof.
  unfold cm_get, cm_keys. induction cm as [|q r IH]; [reflexivity|]. cbn [map find existsb fst snd].
  rewrite (Nat.eqb_sym d (fst q)). destruct (Nat.eqb_spec (fst q) d) as [->|_]; cbn [orb]; [reflexivity|exact IH].
Qed.
Lemma cm_keys_map (h : nat -> list Z -> list Z) cm : cm_keys (map (fun pk => (fst pk, h (fst pk) (snd pk))) cm) = cm_keys cm.
Proof. unfold cm_keys. rewrite map_map. reflexivity. Qed.

Definition memb (d : nat) (l : list nat) : bool := existsb (Nat.eqb d) l.
(* updating the entries of a duplicate-free list of keys one after the other = one map over the dictionary *)
Lemma update_keys (f : list Z -> list Z) : forall todo cm, NoDup todo -> NoDup (cm_keys cm) ->
  fold_left (fun acc d => cm_set acc d (f (cm_get acc d))) todo cm =
  map (fun pk => (fst pk, if memb (fst pk) todo then f (snd pk) else snd pk)) cm.
Proof.
  induction todo as [|d todo IH]; intros cm Nt Nc.
  - cbn. rewrite <- (map_id cm) at 1. apply map_ext. now intros [].
  - inversion Nt as [|? ? Nd Nt']; subst. cbn [fold_left].
    assert (E1 : cm_set cm d (f (cm_get cm d)) = map (fun pk => (fst pk, (fun k v => if Nat.eqb k d then f v else v) (fst pk) (snd pk))) cm).
    { unfold cm_set. apply map_ext_in. intros pk Hpk. destruct (Nat.eqb_spec (fst pk) d) as [<-|_]; [|now destruct pk].
      now rewrite (cm_get_in cm pk Nc Hpk). }
    rewrite E1, IH; [|exact Nt'|unfold cm_keys in *; rewrite map_map; exact Nc]. rewrite map_map. apply map_ext. intros pk. cbn [fst snd memb existsb].
    rewrite (Nat.eqb_sym (fst pk) d). destruct (Nat.eqb_spec d (fst pk)) as [<-|_]; cbn [orb]; [|reflexivity].
    assert (M : memb d todo = false).
    { destruct (memb d todo) eqn:M; [|reflexivity]. apply existsb_exists in M as (x & Hx & Ex). apply Nat.eqb_eq in Ex. subst. contradiction. }
    now rewrite M.
Qed.

Lemma forl_fold {X L} (g : L -> X -> L) (body : L -> X -> D L) :
  (forall l x s evs, body l x s evs = Some (g l x, s, evs)) ->
  forall xs l s evs, forl_ xs body l s evs = Some (fold_left g xs l, s, evs).
Proof. intros Hb. induction xs as [|x r IH]; intros l s evs; [reflexivity|]. cbn [forl_ fold_left]. unfold bind. rewrite Hb. apply IH. Qed.

(* ---------------------------------------------------------------- DemeLimit *)
Definition deme_limit_cmap (mx : bool) (limit : nat) (cm : cmap) : cmap := map (fun pk => (fst pk, deme_limit mx limit (snd pk))) cm.
Definition dl_entry (mx : bool) (limit : nat) (ks : list Z) : list Z := if limit <? length ks then firstn limit (sort_best_first mx ks) else ks.
Lemma dl_entry_eq mx limit ks : dl_entry mx limit ks = deme_limit mx limit ks.
Proof. unfold dl_entry, deme_limit, sort_best_first. destruct (limit <? length ks); [now rewrite firstn_map|reflexivity]. Qed.

Lemma cm_keys_set cm d ks : cm_keys (cm_set cm d ks) = cm_keys cm.
Proof. unfold cm_keys, cm_set. rewrite map_map. apply map_ext. intros pk. now destruct (Nat.eqb (fst pk) d). Qed.
Lemma cm_set_same cm d : NoDup (cm_keys cm) -> cm_set cm d (cm_get cm d) = cm.
Proof.
  intros N. unfold cm_set. rewrite <- (map_id cm) at 2. apply map_ext_in. intros pk Hpk.
  destruct (Nat.eqb_spec (fst pk) d) as [<-|_]; [|reflexivity]. rewrite (cm_get_in cm pk N Hpk). now destruct pk.
Qed.
Lemma fold_left_ext_inv {A B} (P : A -> Prop) (g1 g2 : A -> B -> A) :
  (forall a x, P a -> P (g2 a x)) -> (forall a x, P a -> g1 a x = g2 a x) -> forall xs a, P a -> fold_left g1 xs a = fold_left g2 xs a.
Proof. intros Hp He. induction xs as [|x r IH]; intros a Pa; [reflexivity|]. cbn [fold_left]. rewrite He by exact Pa. apply IH. now apply Hp. Qed.
(* the same with an update that is skipped when a test on the entry fails *)
Lemma update_keys_if (test : list Z -> bool) (f : list Z -> list Z) todo cm : NoDup todo -> NoDup (cm_keys cm) ->
  fold_left (fun acc d => if test (cm_get acc d) then cm_set acc d (f (cm_get acc d)) else acc) todo cm =
  map (fun pk => (fst pk, if memb (fst pk) todo then (if test (snd pk) then f (snd pk) else snd pk) else snd pk)) cm.
Proof.
  intros Nt Nc. rewrite <- (update_keys (fun v => if test v then f v else v) todo cm Nt Nc).
  apply (fold_left_ext_inv (fun a => NoDup (cm_keys a))); [| |exact Nc].
  - intros a x Pa. now rewrite cm_keys_set.
  - intros a x Pa. destruct (test (cm_get a x)); [reflexivity|]. symmetry. now apply cm_set_same.
Qed.

Theorem DemeLimit_ok c fuel limit cm s : NoDup (cm_keys cm) ->
  answers (gen_DemeLimit c fuel limit cm) s (deme_limit_cmap (maximize c) limit cm).
Proof.
  intros N evs. unfold gen_DemeLimit, returned. dunf.
  rewrite (forl_fold (fun acc d => if limit <? length (cm_get acc d) then cm_set acc d (firstn limit (sort_best_first (maximize c) (cm_get acc d))) else acc)).
  - rewrite (update_keys_if (fun v => limit <? length v) (fun v => firstn limit (sort_best_first (maximize c) v)) (cm_keys cm) cm N N). cbn beta iota.
    f_equal. f_equal. f_equal. unfold deme_limit_cmap. apply map_ext_in. intros pk Hpk. unfold memb.
    assert (M : existsb (Nat.eqb (fst pk)) (cm_keys cm) = true) by (apply existsb_exists; exists (fst pk); split; [now apply in_map|apply Nat.eqb_refl]).
    rewrite M. f_equal. apply dl_entry_eq.
  - intros acc d s0 e0. unfold gen_DemeLimit_forl1. dunf. destruct (limit <? length (cm_get acc d)); reflexivity.
Qed.

(* ---------------------------------------------------------------- LevelLimit *)
Definition lvl_at (ds : list deme) (i : nat) : nat := d_lvl (dnth i ds).
(* what one pass of LevelLimit's loop over the levels computes *)
Definition ll_step (mx : bool) (L : nat) (ds : list deme) (cm : cmap) (l : nat) : cmap :=
  let level_demes := filter (fun d => Nat.eqb (lvl_at ds d) l) (cm_keys cm) in
  let lc := sort_best_first mx (flat_map (fun d => cm_get cm d) level_demes) in
  let act := length (filter (fun d => d_active (dnth d ds)) (level_ids ds (l + 1))) in
  if L <? act + length lc
  then fold_left (fun acc d => cm_set acc d (filter (fun k => ind_gt mx k (nth (L - act) lc 0%Z)) (cm_get acc d))) level_demes cm
  else cm.

Lemma ll_body1 c fuel L cm l s evs :
  gen_LevelLimit_forl1 c fuel L cm l s evs = Some (ll_step (maximize c) L (demes (ms s)) cm l, s, evs).
Proof.
  unfold gen_LevelLimit_forl1, ll_step, lvl_at. dunf.
  destruct (L <? _); [|reflexivity].
  rewrite (forl_fold (fun acc d => cm_set acc d (filter (fun k => ind_gt (maximize c) k (nth (L - length (filter (fun d0 => d_active (dnth d0 (demes (ms s)))) (level_ids (demes (ms s)) (l + 1))))
            (sort_best_first (maximize c) (flat_map (fun d0 => cm_get cm d0) (filter (fun d0 => Nat.eqb (d_lvl (dnth d0 (demes (ms s)))) l) (cm_keys cm)))) 0%Z)) (cm_get acc d)))).
  - reflexivity.
  - intros acc d s0 e0. unfold gen_LevelLimit_forl2. dunf. reflexivity.
Qed.

Lemma level_keys_via_get lvl l cm : NoDup (cm_keys cm) ->
  flat_map (fun d => cm_get cm d) (filter (fun d => Nat.eqb (lvl d) l) (cm_keys cm)) = level_keys lvl l cm.
Proof.
  intros N. unfold level_keys, cm_keys.
  assert (G : forall sub, incl sub cm ->
    flat_map (fun d => cm_get cm d) (filter (fun d => Nat.eqb (lvl d) l) (map fst sub)) = flat_map (fun pk => if Nat.eqb (lvl (fst pk)) l then snd pk else []) sub).
  { induction sub as [|pk r IH]; intros I; [reflexivity|]. cbn [map filter flat_map].
    destruct (Nat.eqb (lvl (fst pk)) l); cbn [flat_map]; [rewrite (cm_get_in cm pk N (I pk (or_introl eq_refl)))|]; (rewrite IH; [reflexivity|intros x Hx; apply I; now right]). }
  apply G, incl_refl.
Qed.
Lemma active_below_eq ds l :
  length (filter (fun d => d_active (dnth d ds)) (level_ids ds (l + 1))) = active_at ds (S l).
Proof.
  unfold level_ids, active_at, count. rewrite Nat.add_1_r, <- ids_and_filter, ids_length. reflexivity.
Qed.
Lemma sort_best_first_length mx ks : length (sort_best_first mx ks) = length ks.
Proof. unfold sort_best_first. now rewrite map_length, sort_good_length, map_length. Qed.
Lemma un_good_zero mx : un_good mx 0%Z = 0%Z. Proof. now destruct mx. Qed.
Lemma nth_sort_best_first mx n ks : nth n (sort_best_first mx ks) 0%Z = un_good mx (nth n (sort_good (map (good mx) ks)) 0%Z).
Proof. unfold sort_best_first. rewrite <- (un_good_zero mx) at 1. apply map_nth. Qed.
Lemma ind_gt_keep mx k g : ind_gt mx k (un_good mx g) = keep_under mx (Some g) k.
Proof. unfold ind_gt, better, keep_under. now rewrite good_un_good. Qed.
Lemma filter_true {A} (l : list A) : filter (fun _ => true) l = l.
Proof. induction l as [|x r IH]; cbn; [reflexivity|now rewrite IH]. Qed.
Lemma memb_filter d p l : memb d (filter p l) = memb d l && p d.
Proof.
  unfold memb. induction l as [|x r IH]; [reflexivity|]. cbn [filter existsb]. destruct (p x) eqn:Px; cbn [existsb]; rewrite IH.
  - destruct (Nat.eqb_spec d x) as [->|_]; cbn [orb andb]; [now rewrite Px|reflexivity].
  - destruct (Nat.eqb_spec d x) as [->|_]; cbn [orb andb]; [rewrite Px; now rewrite andb_false_r|reflexivity].
Qed.

(* one pass = the model's cut applied to the parents of that level only *)
Definition ll_keep (mx : bool) (L : nat) (ds : list deme) (cm0 : cmap) (l : nat) : Z -> bool :=
  keep_under mx (level_cut mx L (active_at ds (S l)) (level_keys (lvl_at ds) l cm0)).
Lemma ll_step_spec mx L ds cm l : NoDup (cm_keys cm) ->
  ll_step mx L ds cm l = map (fun pk => (fst pk, if Nat.eqb (lvl_at ds (fst pk)) l then filter (ll_keep mx L ds cm l) (snd pk) else snd pk)) cm.
Proof.
  intros N. unfold ll_step, ll_keep, level_cut. rewrite (level_keys_via_get (lvl_at ds) l cm N), active_below_eq, sort_best_first_length.
  destruct (L <? active_at ds (S l) + length (level_keys (lvl_at ds) l cm)).
  - rewrite update_keys; [|apply NoDup_filter; exact N|exact N]. apply map_ext_in. intros pk Hpk. f_equal.
    rewrite memb_filter.
    assert (M : memb (fst pk) (cm_keys cm) = true) by (apply existsb_exists; exists (fst pk); split; [now apply in_map|apply Nat.eqb_refl]).
    rewrite M. cbn [andb]. destruct (Nat.eqb (lvl_at ds (fst pk)) l); [|reflexivity].
    apply filter_ext. intros k. rewrite nth_sort_best_first. apply ind_gt_keep.
  - rewrite <- (map_id cm) at 1. apply map_ext. intros [k v]. cbn [fst snd]. destruct (Nat.eqb (lvl_at ds k) l); [|reflexivity].
    cbn [keep_under]. now rewrite filter_true.
Qed.

(* the passes over levels 0 .. n-1 = the model's cut applied to the parents of those levels *)
Definition ll_upto (mx : bool) (L : nat) (ds : list deme) (cm0 : cmap) (n : nat) : cmap :=
  map (fun pk => (fst pk, if lvl_at ds (fst pk) <? n then filter (ll_keep mx L ds cm0 (lvl_at ds (fst pk))) (snd pk) else snd pk)) cm0.
Lemma level_keys_upto mx L ds cm0 n : level_keys (lvl_at ds) n (ll_upto mx L ds cm0 n) = level_keys (lvl_at ds) n cm0.
Proof.
  unfold level_keys, ll_upto. rewrite flat_map_concat_map, map_map, <- flat_map_concat_map. apply flat_map_ext. intros pk. cbn [fst snd].
  destruct (Nat.eqb_spec (lvl_at ds (fst pk)) n) as [->|_]; [|reflexivity]. now rewrite Nat.ltb_irrefl.
Qed.
Lemma ll_passes mx L ds cm0 : NoDup (cm_keys cm0) -> forall n, fold_left (ll_step mx L ds) (seq 0 n) cm0 = ll_upto mx L ds cm0 n.
Proof.
  intros N. induction n as [|n IH].
  - unfold ll_upto. cbn [seq fold_left]. rewrite <- (map_id cm0) at 1. apply map_ext. now intros [].
  - rewrite seq_S, fold_left_app, IH. cbn [fold_left Nat.add].
    rewrite ll_step_spec by (unfold ll_upto, cm_keys in *; rewrite map_map; exact N).
    unfold ll_keep at 1. rewrite level_keys_upto. fold (ll_keep mx L ds cm0 n).
    unfold ll_upto. rewrite map_map. apply map_ext. intros pk. cbn [fst snd]. f_equal.
    destruct (Nat.eqb_spec (lvl_at ds (fst pk)) n) as [E|Ne].
    + rewrite E, Nat.ltb_irrefl. assert (X : n <? S n = true) by (apply Nat.ltb_lt; lia). now rewrite X.
    + destruct (Nat.ltb_spec (lvl_at ds (fst pk)) n) as [Hlt|Hge].
      * assert (X : lvl_at ds (fst pk) <? S n = true) by (apply Nat.ltb_lt; lia). now rewrite X.
      * assert (X : lvl_at ds (fst pk) <? S n = false) by (apply Nat.ltb_ge; lia). now rewrite X.
Qed.

Theorem LevelLimit_ok c fuel L cm s :
  NoDup (cm_keys cm) -> (forall pk, In pk cm -> S (lvl_at (demes (ms s)) (fst pk)) < height c) ->
  answers (gen_LevelLimit c fuel L cm) s (level_limit (maximize c) L (lvl_at (demes (ms s))) (active_at (demes (ms s))) cm).
Proof.
  intros N V evs. unfold gen_LevelLimit, returned. dunf.
  rewrite (forl_pure (fun acc l m => ll_step (maximize c) L (demes m) acc l)) by (intros; apply ll_body1).
  rewrite seq_length, (ll_passes (maximize c) L (demes (ms s)) cm N). cbn beta iota. f_equal. f_equal. f_equal.
  unfold ll_upto, level_limit, ll_keep. apply map_ext_in. intros pk Hpk.
  assert (X : lvl_at (demes (ms s)) (fst pk) <? height c - 1 = true) by (apply Nat.ltb_lt; specialize (V pk Hpk); lia).
  now rewrite X.
Qed.
