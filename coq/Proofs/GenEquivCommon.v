(* Proofs/GenEquivCommon.v — the definitions regenerated from /repo's common.py are the model's. *)
From Coq Require Import ZArith Bool.
From HV Require Import F64 Bounds GenCommon.

Ltac gen_equiv :=
  intros; first [ reflexivity
                | cbv beta delta [apply_bounds_clip apply_bounds_reflect apply_bounds_toroidal clip reflect toroidal
                                  reflect_raw toroidal_raw inside np_where] zeta;
                  repeat match goal with |- context [if ?c then _ else _] => destruct c eqn:? end;
                  simpl in *; congruence ].

Lemma clip_eq x lo hi : apply_bounds_clip x lo hi = clip x lo hi.
Proof. timeout 30 gen_equiv. Qed.
Lemma reflect_eq x lo hi : apply_bounds_reflect x lo hi = reflect x lo hi.
Proof. timeout 30 gen_equiv. Qed.
Lemma toroidal_eq x lo hi : apply_bounds_toroidal x lo hi = toroidal x lo hi.
Proof. timeout 30 gen_equiv. Qed.

Definition gen_apply_bounds (m : method) (x lo hi : f64) : f64 :=
  match m with MClip => apply_bounds_clip x lo hi | MReflect => apply_bounds_reflect x lo hi
             | MToroidal => apply_bounds_toroidal x lo hi end.
Lemma gen_apply_bounds_eq m x lo hi : gen_apply_bounds m x lo hi = apply_bounds m x lo hi.
Proof. destruct m; simpl; [apply clip_eq | apply reflect_eq | apply toroidal_eq]. Qed.
