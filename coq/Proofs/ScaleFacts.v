(* Proofs/ScaleFacts.v — the affine scaling of LHS / Sobol unit samples, lower + sample * (upper - lower), on binary64 (C01):
   if the largest admissible sample lands inside the box, so does every smaller non-negative one (monotonicity of rounding).
   The premise for the largest sample below 1 is decidable per box and is evaluated for every box the harness sees. *)
From Coq Require Import ZArith Bool Reals Lia Lra.
From Flocq Require Import Core.Core IEEE754.BinarySingleNaN.
From HV Require Import F64.
Local Open Scope R_scope.

#[local] Instance vexp64 : Valid_exp (SpecFloat.fexp prec emax) := fexp_correct prec emax Hprec.
Local Notation rnd := (round radix2 (SpecFloat.fexp prec emax) (round_mode mode_NE)).

Lemma overflow_not_finite (x : f64) s : B2SF x = binary_overflow prec emax mode_NE s -> is_finite x = false.
Proof. unfold binary_overflow. simpl. destruct x; simpl; intros H; try discriminate; reflexivity. Qed.

Lemma fmul_R (x y : f64) : is_finite (fmul x y) = true -> B2R (fmul x y) = rnd (B2R x * B2R y).
Proof.
  unfold fmul. intros F. pose proof (Bmult_correct prec emax _ _ mode_NE x y) as C.
  destruct (Rlt_bool _ _); [exact (proj1 C)|]. apply overflow_not_finite in C. congruence.
Qed.
Lemma fadd_R (x y : f64) : is_finite x = true -> is_finite y = true -> is_finite (fadd x y) = true -> B2R (fadd x y) = rnd (B2R x + B2R y).
Proof.
  unfold fadd. intros Fx Fy F. pose proof (Bplus_correct prec emax _ _ mode_NE x y Fx Fy) as C.
  destruct (Rlt_bool _ _); [exact (proj1 C)|]. destruct C as (C & _). apply overflow_not_finite in C. congruence.
Qed.
Lemma rnd_B2R (x : f64) : rnd (B2R x) = B2R x.
Proof. apply round_generic; auto with typeclass_instances. apply generic_format_B2R. Qed.
Lemma rnd_between (a b : f64) z : B2R a <= z <= B2R b -> B2R a <= rnd z <= B2R b /\ Rabs (rnd z) < bpow radix2 emax.
Proof.
  intros (Ha & Hb). assert (B2R a <= rnd z <= B2R b) as H.
  { split; [rewrite <- (rnd_B2R a)|rewrite <- (rnd_B2R b)]; apply round_le; auto with typeclass_instances. }
  clear Ha Hb.
  split; [exact H|]. pose proof (abs_B2R_lt_emax prec emax a) as A. pose proof (abs_B2R_lt_emax prec emax b) as B.
  apply Rabs_def1; [apply Rle_lt_trans with (B2R b); [tauto|apply Rle_lt_trans with (Rabs (B2R b)); [apply Rle_abs|exact B]]|].
  apply Rlt_le_trans with (B2R a); [|tauto]. apply Ropp_lt_cancel. rewrite Ropp_involutive.
  apply Rle_lt_trans with (Rabs (B2R a)); [rewrite <- Rabs_Ropp; apply Rle_abs|exact A].
Qed.

Lemma Rle_of_bool a b : Rle_bool a b = true -> a <= b.
Proof. intros H. destruct (Rle_bool_spec a b); [assumption|discriminate]. Qed.

Theorem scale_in_box (lo hi s smax : f64) :
  is_finite lo = true -> is_finite hi = true -> is_finite s = true -> is_finite smax = true ->
  fle (fzero false) s = true -> fle s smax = true ->
  is_finite (fsub hi lo) = true -> fle (fzero false) (fsub hi lo) = true ->
  is_finite (fmul smax (fsub hi lo)) = true -> is_finite (fadd lo (fmul smax (fsub hi lo))) = true ->
  fle (fadd lo (fmul smax (fsub hi lo))) hi = true ->
  fle lo (fadd lo (fmul s (fsub hi lo))) = true /\ fle (fadd lo (fmul s (fsub hi lo))) hi = true /\ is_finite (fadd lo (fmul s (fsub hi lo))) = true.
Proof.
  intros Flo Fhi Fs Fsm Hs0 Hsm Fr Hr0 Fxm Ftop Htop. set (r := fsub hi lo) in *.
  unfold fle in Hs0, Hsm, Hr0, Htop. rewrite Bleb_correct in Hs0, Hsm, Hr0, Htop by (assumption || reflexivity).
  apply Rle_of_bool in Hs0, Hsm, Hr0, Htop. simpl in Hs0, Hr0.
  (* the products *)
  pose proof (fmul_R smax r Fxm) as Exm.
  assert (0 <= B2R s * B2R r <= B2R smax * B2R r) as Hprod by (split; [apply Rmult_le_pos; assumption|apply Rmult_le_compat_r; assumption]).
  assert (0 <= rnd (B2R s * B2R r) <= B2R (fmul smax r)) as Hx.
  { split; [rewrite <- (round_0 radix2 (SpecFloat.fexp prec emax) (round_mode mode_NE)); apply round_le; auto with typeclass_instances; tauto|].
    rewrite Exm. apply round_le; auto with typeclass_instances. tauto. }
  assert (is_finite (fmul s r) = true /\ B2R (fmul s r) = rnd (B2R s * B2R r)) as (Fx & Ex).
  { unfold fmul. pose proof (Bmult_correct prec emax _ _ mode_NE s r) as C. rewrite Rlt_bool_true in C.
    - destruct C as (C1 & C2 & _). split; [rewrite C2, Fs, Fr; reflexivity|exact C1].
    - rewrite Rabs_pos_eq by tauto. apply Rle_lt_trans with (B2R (fmul smax r)); [tauto|].
      apply Rle_lt_trans with (Rabs (B2R (fmul smax r))); [apply Rle_abs|apply abs_B2R_lt_emax]. }
  (* the sums *)
  pose proof (fadd_R lo (fmul smax r) Flo Fxm Ftop) as Etop.
  assert (B2R lo <= B2R lo + B2R (fmul s r) <= B2R lo + B2R (fmul smax r)) as Hsum by (rewrite Ex; lra).
  assert (B2R lo <= rnd (B2R lo + B2R (fmul s r)) <= B2R (fadd lo (fmul smax r))) as Hy.
  { split; [rewrite <- (rnd_B2R lo) at 1; apply round_le; auto with typeclass_instances; tauto|].
    rewrite Etop. apply round_le; auto with typeclass_instances. tauto. }
  assert (is_finite (fadd lo (fmul s r)) = true /\ B2R (fadd lo (fmul s r)) = rnd (B2R lo + B2R (fmul s r))) as (Fy & Ey).
  { unfold fadd. pose proof (Bplus_correct prec emax _ _ mode_NE lo (fmul s r) Flo Fx) as C. rewrite Rlt_bool_true in C.
    - destruct C as (C1 & C2 & _). split; assumption.
    - pose proof (abs_B2R_lt_emax prec emax lo) as A. pose proof (abs_B2R_lt_emax prec emax (fadd lo (fmul smax r))) as B.
      apply Rabs_def1.
      + apply Rle_lt_trans with (B2R (fadd lo (fmul smax r))); [tauto|]. apply Rle_lt_trans with (Rabs (B2R (fadd lo (fmul smax r)))); [apply Rle_abs|exact B].
      + apply Rlt_le_trans with (B2R lo); [|tauto]. apply Ropp_lt_cancel. rewrite Ropp_involutive.
        apply Rle_lt_trans with (Rabs (B2R lo)); [rewrite <- Rabs_Ropp; apply Rle_abs|exact A]. }
  unfold fle. rewrite !Bleb_correct by assumption. rewrite Ey. repeat split; try assumption; apply Rle_bool_true; lra.
Qed.
