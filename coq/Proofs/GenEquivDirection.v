(* Proofs/GenEquivDirection.v — CMADeme._values_for_cma, TRANSLATED from the current cma_deme.py (Gen/GenDirection.v): CMA-ES minimises what it is
   told, and what it is told orders the individuals exactly as the problem does: a smaller told value = a strictly better fitness, in both
   directions (the driver translator checks that tell() receives these values for the deme's most recent generation). *)
From Coq Require Import ZArith Bool List.
From Flocq Require Import BinarySingleNaN.
From HV Require Import F64 WMonad GenDirection.
Import ListNotations.

Lemma compare_opp (a b : f64) : Bcompare (Bopp a) (Bopp b) = Bcompare b a.
Proof.
  rewrite (Bcompare_swap _ _ a b).
  destruct a as [sa|sa| |sa ma ea Ha], b as [sb|sb| |sb mb eb Hb]; try reflexivity;
    try (destruct sa, sb; reflexivity); try (destruct sa; reflexivity); try (destruct sb; reflexivity).
  unfold Bcompare, Bopp. cbn [B2SF SpecFloat.SFcompare negb].
  destruct sa, sb; cbn [negb]; try reflexivity;
    destruct (Z.compare ea eb) eqn:E; cbn; rewrite ?CompOpp_involutive; try reflexivity; try (destruct (Pos.compare ma mb) eqn:E2; reflexivity).
Qed.
Lemma flt_opp (a b : F) : flt (fneg a) (fneg b) = flt b a.
Proof.
  unfold flt, fneg, Bltb, SpecFloat.SFltb. change (SpecFloat.SFcompare (B2SF (Bopp a)) (B2SF (Bopp b))) with (Bcompare (Bopp a) (Bopp b)).
  change (SpecFloat.SFcompare (B2SF b) (B2SF a)) with (Bcompare b a). now rewrite compare_opp.
Qed.
Theorem values_length mx fs : length (gen_values_for_cma mx fs) = length fs.
Proof. unfold gen_values_for_cma. destruct mx; [apply map_length|reflexivity]. Qed.
(* position by position: told(i) < told(j)  iff  individual i is strictly better than individual j in the problem's direction *)
Theorem told_order_is_problem_order mx fs i j d : (i < length fs)%nat -> (j < length fs)%nat ->
  flt (nth i (gen_values_for_cma mx fs) d) (nth j (gen_values_for_cma mx fs) d) = if mx then flt (nth j fs d) (nth i fs d) else flt (nth i fs d) (nth j fs d).
Proof.
  intros Hi Hj. unfold gen_values_for_cma. destruct mx; [|reflexivity].
  rewrite (nth_indep _ d (fneg d)), (nth_indep (map fneg fs) d (fneg d)) by (rewrite map_length; assumption). rewrite !map_nth. apply flt_opp.
Qed.

(* LocalDeme: scipy minimises gen_local_objective; when it reports, for an iterate x, the value of that function at x (contract X5, measured
   on every trace), the callback records x with the objective's own value f x — in both directions *)
Theorem local_iterate_recorded_with_its_own_fitness {G} mx (f : G -> F) (x : G) :
  gen_local_recorded mx x (gen_local_objective mx f x) = (x, f x).
Proof. unfold gen_local_recorded, gen_local_objective, fneg. destruct mx; [|reflexivity]. now rewrite Bopp_involutive. Qed.
(* and scipy is steered in the problem's direction: a smaller value of what it minimises = a strictly better fitness *)
Theorem local_objective_order {G} mx (f : G -> F) (x y : G) :
  flt (gen_local_objective mx f x) (gen_local_objective mx f y) = if mx then flt (f y) (f x) else flt (f x) (f y).
Proof. unfold gen_local_objective. destruct mx; [apply flt_opp|reflexivity]. Qed.
