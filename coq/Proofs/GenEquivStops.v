(* Proofs/GenEquivStops.v — the stop conditions translated from /repo's CURRENT pyhms/stop_conditions/{gsc,usc,lsc}.py (Gen/GenStops.v)
   give, in every well-formed machine state, exactly the verdict the HMS machine computes for the corresponding configuration
   (gsc_eval / lsc_eval of Model/Tree.v) — and they only look: they leave the state and the event stream alone. *)
From Coq Require Import List Bool Arith ZArith Lia Permutation.
From HV Require Import Ord ListX Sprout Tree TreeLemmas DriverPrim Driver DriverFacts GenDriver GenEquivDriver GenStops.
Import ListNotations.

(* every deme sits on a configured level (part of the machine invariant WFT) *)
Definition levels_ok (c : cfg) (ds : list deme) : Prop := forall i, i < length ds -> d_lvl (dnth i ds) < height c.
(* a read-only program with answer a *)
Definition answers {A} (m : D A) (s : dst) (a : A) : Prop := forall evs, m s evs = Some (a, s, evs).

Ltac runit := unfold answers, returned; intros; dunf; try reflexivity.

(* ---------------------------------------------------------------- lists of deme indices *)
Lemma In_dnth (ds : list deme) x : In x ds <-> exists i, i < length ds /\ dnth i ds = x.
Proof.
  split.
  - intros H. destruct (In_nth ds x (root_deme 0) H) as (i & Hi & E). now exists i.
  - intros (i & Hi & <-). now apply nth_In.
Qed.
Lemma all_ids_spec c ds x : levels_ok c ds -> In x (gen_all_demes c ds) <-> x < length ds.
Proof.
  intros L. unfold gen_all_demes. rewrite in_flat_map. split.
  - intros (l & _ & H). apply filter_In in H as (H & _). now apply ids_spec in H as (H & _).
  - intros H. exists (d_lvl (dnth x ds)). split; [apply in_seq; specialize (L x H); lia|].
    apply filter_In. split; [|reflexivity]. apply ids_spec. split; [exact H|apply Nat.eqb_refl].
Qed.
Lemma all_ids_NoDup c ds : NoDup (gen_all_demes c ds).
Proof.
  unfold gen_all_demes. apply NoDup_flat_map_disjoint.
  - apply seq_NoDup.
  - intros a _. apply NoDup_filter. apply ids_NoDup.
  - intros a a' x _ _ H1 H2. apply filter_In in H1 as (H1 & _), H2 as (H2 & _). apply ids_spec in H1 as (_ & H1), H2 as (_ & H2).
    apply Nat.eqb_eq in H1, H2. congruence.
Qed.
Lemma all_ids_perm c ds : levels_ok c ds -> Permutation (gen_all_demes c ds) (seq 0 (length ds)).
Proof.
  intros L. apply NoDup_Permutation; [apply all_ids_NoDup|apply seq_NoDup|].
  intros x. rewrite in_seq. split; intros H; [apply (all_ids_spec c ds x L) in H; lia | apply (all_ids_spec c ds x L); lia].
Qed.

Lemma map_dnth_seq (ds : list deme) : map (fun i => dnth i ds) (seq 0 (length ds)) = ds.
Proof.
  induction ds as [|x r IH]; [reflexivity|]. cbn [length seq map]. f_equal. rewrite <- seq_shift, map_map. exact IH.
Qed.
Lemma list_sum_perm l l' : Permutation l l' -> list_sum l = list_sum l'.
Proof. induction 1; unfold list_sum in *; simpl; lia. Qed.
Lemma fold_left_add_sum (g : nat -> nat) l a : fold_left (fun acc i => acc + g i) l a = a + list_sum (map g l).
Proof. revert a; induction l as [|x r IH]; intros a; unfold list_sum; simpl; [lia|]. rewrite IH. unfold list_sum. lia. Qed.
Lemma sum_over_all_demes c ds (f : deme -> nat) : levels_ok c ds ->
  fold_left (fun acc i => acc + f (dnth i ds)) (gen_all_demes c ds) 0 = fold_right (fun d a => f d + a) 0 ds.
Proof.
  intros L. rewrite fold_left_add_sum. cbn [Nat.add].
  rewrite (list_sum_perm _ _ (Permutation_map (fun i => f (dnth i ds)) (all_ids_perm c ds L))).
  rewrite <- (map_map (fun i => dnth i ds) f), map_dnth_seq. induction ds as [|x r IH]; cbn; [reflexivity|].
  f_equal. apply IH. intros i Hi. apply (L (S i)). cbn. lia.
Qed.

(* ---------------------------------------------------------------- the conditions that only read flags and counters *)
Theorem RootStopped_ok c fuel s :
  exists b, answers (gen_RootStopped c fuel) s b /\ gsc_eval GRootStopped (height c) (ms s) = Some b.
Proof. eexists. split; [runit|reflexivity]. Qed.

Theorem MetaepochLimit_tree_ok c fuel n s :
  exists b, answers (gen_MetaepochLimit_tree c fuel n) s b /\ gsc_eval (GMetaLimit n) (height c) (ms s) = Some b.
Proof. eexists. split; [runit|reflexivity]. Qed.
Theorem DontRun_tree_ok c fuel s : exists b, answers (gen_DontRun_tree c fuel) s b /\ gsc_eval GDontRun (height c) (ms s) = Some b.
Proof. eexists. split; [runit|reflexivity]. Qed.
Theorem DontStop_tree_ok c fuel s : exists b, answers (gen_DontStop_tree c fuel) s b /\ gsc_eval GDontStop (height c) (ms s) = Some b.
Proof. eexists. split; [runit|reflexivity]. Qed.

Theorem MetaepochLimit_deme_ok c fuel n d s :
  exists b, answers (gen_MetaepochLimit_deme c fuel n d) s b /\ lsc_eval (LMetaLimit n) d (demes (ms s)) = Some b.
Proof. eexists. split; [runit|reflexivity]. Qed.
Theorem DontRun_deme_ok c fuel d s : exists b, answers (gen_DontRun_deme c fuel d) s b /\ lsc_eval LDontRun d (demes (ms s)) = Some b.
Proof. eexists. split; [runit|reflexivity]. Qed.
Theorem DontStop_deme_ok c fuel d s : exists b, answers (gen_DontStop_deme c fuel d) s b /\ lsc_eval LDontStop d (demes (ms s)) = Some b.
Proof. eexists. split; [runit|reflexivity]. Qed.

(* FitnessSteadiness: what its __call__ decides before any fitness value is looked at (translated: true = no early return) is the part of the verdict
   the machine knows — false while the deme has run fewer than n metaepochs; from then on the float-valued verdict is an oracle *)
Theorem FitnessSteadiness_early_ok c fuel n d s :
  exists b, answers (gen_FitnessSteadiness_early c fuel n d) s b /\
            lsc_eval (LSteadiness n) d (demes (ms s)) = (if b then None else Some false).
Proof.
  destruct (d_meta (dnth d (demes (ms s))) <? n) eqn:E.
  - exists false. split; [unfold answers, gen_FitnessSteadiness_early, returned; intros; dunf; rewrite ?E; try reflexivity|cbn [lsc_eval]; now rewrite E].
    all: try (apply Nat.ltb_lt in E; repeat match goal with |- context [?a <? ?b] => destruct (Nat.ltb_spec a b) | |- context [?a <=? ?b] => destruct (Nat.leb_spec a b) end; try reflexivity; lia).
  - exists true. split; [unfold answers, gen_FitnessSteadiness_early, returned; intros; dunf; rewrite ?E; try reflexivity|cbn [lsc_eval]; now rewrite E].
    all: try (apply Nat.ltb_ge in E; repeat match goal with |- context [?a <? ?b] => destruct (Nat.ltb_spec a b) | |- context [?a <=? ?b] => destruct (Nat.leb_spec a b) end; try reflexivity; lia).
Qed.

(* ---------------------------------------------------------------- AllStopped *)
Lemma no_active_iff c ds : levels_ok c ds ->
  Nat.eqb (length (gen_active_demes c ds)) 0 = forallb (fun d => negb (d_active d)) ds.
Proof.
  intros L. rewrite gen_active_demes_eq, active_demes_spec. apply eq_true_iff_eq. rewrite Nat.eqb_eq, forallb_forall. split.
  - intros E x Hx. apply In_dnth in Hx as (i & Hi & <-). destruct (d_active (dnth i ds)) eqn:A; [|reflexivity]. exfalso.
    assert (Hin : In i (level_order (height c) d_active ds)) by (apply level_order_spec; auto).
    destruct (level_order (height c) d_active ds); [contradiction|discriminate].
  - intros H. destruct (level_order (height c) d_active ds) as [|i r] eqn:E; [reflexivity|]. exfalso.
    assert (Hin : In i (level_order (height c) d_active ds)) by (rewrite E; now left).
    apply level_order_spec in Hin as (Hi & _ & A). specialize (H (dnth i ds) (nth_In _ _ Hi)). rewrite A in H. discriminate.
Qed.
Theorem AllStopped_ok c fuel s : levels_ok c (demes (ms s)) ->
  exists b, answers (gen_AllStopped c fuel) s b /\ gsc_eval GAllStopped (height c) (ms s) = Some b.
Proof. intros L. eexists. split; [runit|]. cbn [gsc_eval]. now rewrite (no_active_iff c _ L). Qed.

(* ---------------------------------------------------------------- evaluation limits *)
Lemma n_evaluations_total c ds : levels_ok c ds -> gen_n_evaluations c ds = total_evals ds.
Proof. intros L. unfold gen_n_evaluations. now rewrite (sum_over_all_demes c ds d_evals L). Qed.

(* SingularProblemEvalLimitReached = the evaluation limit with every level counting once *)
Lemma weighted_ones ds ws : (forall d, In d ds -> nth (d_lvl d) ws 0 = 1) ->
  fold_right (fun d a => nth (d_lvl d) ws 0 * d_evals d + a) 0 ds = total_evals ds.
Proof. unfold total_evals. induction ds as [|x r IH]; intros H; cbn [fold_right]; [reflexivity|]. rewrite (H x (or_introl eq_refl)), IH by (intros; apply H; now right). lia. Qed.
Theorem SingularProblemEvalLimitReached_ok c fuel limit ws s :
  levels_ok c (demes (ms s)) -> (forall d, In d (demes (ms s)) -> nth (d_lvl d) ws 0 = 1) ->
  exists b, answers (gen_SingularProblemEvalLimitReached c fuel limit) s b /\ gsc_eval (GEvalLimit limit ws) (height c) (ms s) = Some b.
Proof.
  intros L W. eexists. split; [runit|]. cbn [gsc_eval]. now rewrite (n_evaluations_total c _ L), (weighted_ones _ ws W).
Qed.

Lemma forl_pure {X L} (g : L -> X -> st -> L) (body : L -> X -> D L) :
  (forall l x s evs, body l x s evs = Some (g l x (ms s), s, evs)) ->
  forall xs l s evs, forl_ xs body l s evs = Some (fold_left (fun a x => g a x (ms s)) xs l, s, evs).
Proof.
  intros Hb. induction xs as [|x r IH]; intros l s evs; [reflexivity|]. cbn [forl_ fold_left]. unfold bind. rewrite Hb. apply IH.
Qed.
Theorem FitnessEvalLimitReached_ok c fuel limit ws s : levels_ok c (demes (ms s)) ->
  exists b, answers (gen_FitnessEvalLimitReached c fuel limit ws) s b /\ gsc_eval (GEvalLimit limit ws) (height c) (ms s) = Some b.
Proof.
  intros L. eexists. split.
  - unfold answers, gen_FitnessEvalLimitReached, returned. intros evs. dunf.
    rewrite (forl_pure (fun a x m => a + nth (d_lvl (dnth x (demes m))) ws 0 * d_evals (dnth x (demes m)))).
    + reflexivity.
    + intros l x s0 e0. unfold gen_FitnessEvalLimitReached_forl1. dunf. reflexivity.
  - cbn [gsc_eval]. now rewrite (sum_over_all_demes c _ (fun d => nth (d_lvl d) ws 0 * d_evals d) L).
Qed.

(* ---------------------------------------------------------------- FitnessEvalLimitReached: the weights the sum is taken with *)
Lemma map_const_seq (k a m : nat) : map (fun _ => k) (seq a m) = repeat k m.
Proof. revert a. induction m as [|m IH]; intros a; [reflexivity|]. cbn [seq map repeat]. now rewrite IH. Qed.
Lemma repeat_app_one (k m : nat) : repeat k m ++ [k] = k :: repeat k m.
Proof. induction m as [|m IH]; [reflexivity|]. cbn [repeat app]. now rewrite IH. Qed.
Theorem weights_nlevels_ok c : gen_weights_nlevels c = height c.
Proof. unfold gen_weights_nlevels. rewrite ?seq_length. reflexivity || lia. Qed.
(* _transform_weights under the guard of __call__: None / "equal" become all-ones, "root" counts the root level only (IndexError for a tree of no
   levels), an explicit list is left alone, any other string is left alone too (the sum then raises: None) *)
Theorem effective_weights_ok c w : 0 < height c -> w_as_list (gen_effective_weights c w) = weights_of (height c) w.
Proof.
  unfold gen_effective_weights. rewrite weights_nlevels_ok. generalize (height c) as n. intros n Hn.
  destruct n as [|m]; [lia|]. clear Hn.
  unfold gen_weights_guard, gen_transform_weights.
  destruct w as [| | | |l]; cbn [w_is_none w_is_str w_is_list w_eq_equal w_eq_root orb andb negb w_as_list weights_of];
    try reflexivity;
    cbn [seq map repeat app w_setitem list_set w_as_list weights_of Nat.sub Nat.add];
    rewrite ?Nat.sub_0_r, ?Nat.add_0_r, ?map_const_seq, ?repeat_app_one; cbn [app w_setitem list_set w_as_list]; reflexivity.
Qed.
(* the normalisation happens once: what it leaves is a list, and a list is never touched again *)
Theorem effective_weights_idem c c' w ws : w_as_list (gen_effective_weights c w) = Some ws ->
  gen_effective_weights c' (WList ws) = Some (WList ws).
Proof.
  intros _. unfold gen_effective_weights, gen_weights_guard.
  cbn [w_is_none w_is_str w_is_list w_eq_equal w_eq_root orb andb negb]. reflexivity.
Qed.
Theorem FitnessEvalLimitReached_spec_ok c fuel limit w ws s : levels_ok c (demes (ms s)) -> 0 < height c ->
  w_as_list (gen_effective_weights c w) = Some ws ->
  exists b, answers (gen_FitnessEvalLimitReached c fuel limit ws) s b /\
            gsc_eval (GEvalLimit limit (weights_or_nil (height c) w)) (height c) (ms s) = Some b.
Proof.
  intros L H0 E. rewrite (effective_weights_ok c w H0) in E. unfold weights_or_nil. rewrite E. now apply FitnessEvalLimitReached_ok.
Qed.
(* "equal" (and None) is SingularProblemEvalLimitReached; "root" counts the root's evaluations only *)
Lemma nth_repeat_lt (k i n : nat) : i < n -> nth i (repeat k n) 0 = k.
Proof. revert i. induction n as [|n IH]; intros i H; [lia|]. destruct i as [|i]; cbn [repeat nth]; [reflexivity|]. apply IH. lia. Qed.
Lemma nth_repeat_zero (i n : nat) : nth i (repeat 0 n) 0 = 0.
Proof. revert i. induction n as [|n IH]; intros [|i]; cbn [repeat nth]; auto. Qed.
Theorem equal_weights_total c limit w s : levels_ok c (demes (ms s)) -> w = WEqual \/ w = WNone ->
  gsc_eval (GEvalLimit limit (weights_or_nil (height c) w)) (height c) (ms s) = Some (limit <=? total_evals (demes (ms s))).
Proof.
  intros L W. cbn [gsc_eval]. f_equal. f_equal. apply weighted_ones. intros d Hd.
  apply In_dnth in Hd as (i & Hi & <-). specialize (L i Hi).
  assert (Ew : weights_or_nil (height c) w = repeat 1 (height c)) by (destruct W as [-> | ->]; reflexivity).
  rewrite Ew. now apply nth_repeat_lt.
Qed.
Theorem root_weights_root_only c limit s : 0 < height c ->
  gsc_eval (GEvalLimit limit (weights_or_nil (height c) WRoot)) (height c) (ms s)
  = Some (limit <=? fold_right (fun d a => (if Nat.eqb (d_lvl d) 0 then d_evals d else 0) + a) 0 (demes (ms s))).
Proof.
  intros H. cbn [gsc_eval]. f_equal. f_equal. destruct (height c) as [|m]; [lia|]. unfold weights_or_nil. cbn [weights_of].
  induction (demes (ms s)) as [|d r IH]; [reflexivity|]. cbn [fold_right]. rewrite IH. f_equal.
  destruct (d_lvl d) as [|l]; cbn [nth Nat.eqb]; [lia|]. now rewrite nth_repeat_zero.
Qed.

(* ---------------------------------------------------------------- indices of a level / of a deme's children vs filtering the list *)
Lemma map_dnth_ids_from p : forall l pre, map (fun i => dnth i (pre ++ l)) (ids_from (length pre) p l) = filter p l.
Proof.
  induction l as [|x r IH]; intros pre; [reflexivity|]. cbn [ids_from filter].
  assert (E : dnth (length pre) (pre ++ x :: r) = x) by (unfold dnth; rewrite app_nth2 by lia; now rewrite Nat.sub_diag).
  specialize (IH (pre ++ [x])). rewrite app_length in IH. cbn [length] in IH. rewrite Nat.add_1_r, <- app_assoc in IH. cbn [app] in IH.
  destruct (p x); cbn [map]; [rewrite E; f_equal|]; exact IH.
Qed.
Lemma map_dnth_ids p ds : map (fun i => dnth i ds) (ids p ds) = filter p ds.
Proof. exact (map_dnth_ids_from p ds []). Qed.
Lemma ids_length p ds : length (ids p ds) = length (filter p ds).
Proof. now rewrite <- (map_dnth_ids p ds), map_length. Qed.
Lemma forallb_map' {A B} (f : B -> bool) (g : A -> B) l : forallb f (map g l) = forallb (fun x => f (g x)) l.
Proof. induction l as [|x r IH]; cbn; [reflexivity|]. now rewrite IH. Qed.
Lemma existsb_map' {A B} (f : B -> bool) (g : A -> B) l : existsb f (map g l) = existsb (fun x => f (g x)) l.
Proof. induction l as [|x r IH]; cbn; [reflexivity|]. now rewrite IH. Qed.
Lemma forallb_filter' {A} (p q : A -> bool) l : forallb q (filter p l) = forallb (fun x => negb (p x) || q x) l.
Proof. induction l as [|x r IH]; cbn; [reflexivity|]. destruct (p x); cbn; now rewrite IH. Qed.
Lemma forallb_ids p (q : deme -> bool) ds : forallb (fun i => q (dnth i ds)) (ids p ds) = forallb (fun x => negb (p x) || q x) ds.
Proof. rewrite <- (forallb_map' q (fun i => dnth i ds)), map_dnth_ids. apply forallb_filter'. Qed.
Lemma forallb_ext' {A} (f g : A -> bool) l : (forall x, f x = g x) -> forallb f l = forallb g l.
Proof. intros H. induction l as [|x r IH]; cbn; [reflexivity|]. now rewrite H, IH. Qed.
Lemma negb_existsb {A} (f : A -> bool) l : negb (existsb f l) = forallb (fun x => negb (f x)) l.
Proof. induction l as [|x r IH]; cbn; [reflexivity|]. now rewrite negb_orb, IH. Qed.

(* ---------------------------------------------------------------- AllChildrenStopped *)
Theorem AllChildrenStopped_ok c fuel d s :
  exists b, answers (gen_AllChildrenStopped c fuel d) s b /\ lsc_eval LAllChildrenStopped d (demes (ms s)) = Some b.
Proof.
  set (ds := demes (ms s)).
  exists (if Nat.eqb (length (child_ids ds d)) 0 then false else forallb (fun ch => negb (d_active (dnth ch ds))) (child_ids ds d)). split.
  - unfold answers, gen_AllChildrenStopped, returned. intros evs. dunf. fold ds. destruct (Nat.eqb (length (child_ids ds d)) 0); reflexivity.
  - cbn [lsc_eval]. fold ds. unfold child_ids, children_of. rewrite ids_length.
    set (p := fun x : deme => match d_par x with Some q => Nat.eqb q d | None => false end).
    destruct (Nat.eqb (length (filter p ds)) 0); cbn [negb andb]; [reflexivity|].
    now rewrite (forallb_ids p (fun x => negb (d_active x))), <- forallb_filter'.
Qed.

(* ---------------------------------------------------------------- NoActiveNonrootDemes *)
(* a `for` whose body can only `return False`: it returns False iff some element makes it do so *)
Lemma forv_check {X} (bad : X -> st -> bool) (body : X -> D (option bool)) :
  (forall x s evs, body x s evs = Some ((if bad x (ms s) then Some false else None), s, evs)) ->
  forall xs s evs, forv_ xs body s evs = Some ((if existsb (fun x => bad x (ms s)) xs then Some false else None), s, evs).
Proof.
  intros Hb. induction xs as [|x r IH]; intros s evs; [reflexivity|]. cbn [forv_ existsb]. unfold bind. rewrite Hb.
  destruct (bad x (ms s)); cbn [orb]; [reflexivity|]. apply IH.
Qed.

Definition nan_bad2 (n step : nat) (i : nat) (m : st) : bool :=
  d_active (dnth i (demes m)) || (step <=? d_started (dnth i (demes m)) + d_meta (dnth i (demes m)) + n).
Definition nan_bad1 (n step : nat) (lv : nat) (m : st) : bool :=
  Nat.eqb (length (level_ids (demes m) lv)) 0 || existsb (fun i => nan_bad2 n step i m) (level_ids (demes m) lv).

Lemma nan_body2 c fuel n step i s evs :
  gen_NoActiveNonrootDemes_forv2 c fuel n step i s evs = Some ((if nan_bad2 n step i (ms s) then Some false else None), s, evs).
Proof.
  (* whichever way the disjunction and the sum are written in the source *)
  unfold gen_NoActiveNonrootDemes_forv2, nan_bad2. dunf.
  repeat match goal with |- context [Nat.leb ?a ?b] => destruct (Nat.leb_spec a b) end;
    destruct (d_active (dnth i (demes (ms s)))); cbn [orb andb negb]; try reflexivity; exfalso; lia.
Qed.
Lemma nan_body1 c fuel n step lv s evs :
  gen_NoActiveNonrootDemes_forv1 c fuel n step lv s evs = Some ((if nan_bad1 n step lv (ms s) then Some false else None), s, evs).
Proof.
  unfold gen_NoActiveNonrootDemes_forv1, nan_bad1. dunf. destruct (Nat.eqb (length (level_ids (demes (ms s)) lv)) 0); cbn [orb]; [reflexivity|].
  rewrite (forv_check (nan_bad2 n step) _ (nan_body2 c fuel n step)). destruct (existsb _ _); reflexivity.
Qed.
Theorem NoActiveNonrootDemes_ok c fuel n s :
  exists b, answers (gen_NoActiveNonrootDemes c fuel n) s b /\ gsc_eval (GNoActiveNonroot n) (height c) (ms s) = Some b.
Proof.
  eexists. split.
  - unfold answers, gen_NoActiveNonrootDemes, returned. intros evs. dunf.
    rewrite (forv_check (nan_bad1 n (mcount (ms s))) _ (nan_body1 c fuel n (mcount (ms s)))).
    instantiate (1 := negb (existsb (fun lv => nan_bad1 n (mcount (ms s)) lv (ms s)) (seq 1 (height c - 1)))).
    destruct (existsb _ _); reflexivity.
  - cbn [gsc_eval]. f_equal. rewrite negb_existsb. apply forallb_ext'. intros lv. unfold nan_bad1, nan_bad2, level_ids, count.
    rewrite negb_orb, ids_length, negb_existsb. f_equal.
    rewrite (forallb_ids (fun d => Nat.eqb (d_lvl d) lv) (fun x => negb (d_active x || (mcount (ms s) <=? d_started x + d_meta x + n)))).
    apply forallb_ext'. intros x. rewrite negb_orb, Nat.ltb_antisym. reflexivity.
Qed.

(* the side condition holds in every state of every accepted run (WFT is part of INV) *)
From HV Require Import TreeInv.
Lemma WFT_levels_ok c s : WFT c s -> levels_ok c (demes s).
Proof. intros (_ & W) i Hi. exact (proj1 (W i Hi)). Qed.
