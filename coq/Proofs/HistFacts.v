(* Proofs/HistFacts.v — invariants of the history machine for every accepted event stream: stored individuals carry the value of
   the evaluation that produced them (C02), histories only grow (C02, C06), every generation is bred from the one immediately
   before it (C11), whatever predicate holds of all evaluated genomes holds of all stored ones (C01), generation sizes of
   population engines are constant (C12), seeds are individuals of the parent (C07), bests never get worse (C04). *)
From Coq Require Import List Bool Arith ZArith Lia.
From HV Require Import Ord Select SelectFacts Hist.
Import ListNotations.

Definition tlast (hd : hdeme) : nat := match last_gen hd with Some (_, t) => t | None => 0 end.
Definition true_fit (log : list (nat * Z * Z)) (i : ind) : Prop := exists d', nth_error log (ist i) = Some (d', ig i, ifit i).

Record DI (log : list (nat * Z * Z)) (d : nat) (hd : hdeme) : Prop := {
  di_fit : forall g t i, In (g, t) (hgens hd) -> In i g -> true_fit log i;
  di_pend : forall stamp, In stamp (hpend hd) -> tlast hd <= stamp /\ exists x v, nth_error log stamp = Some (d, x, v);
  di_seed : forall sd, hseed hd = Some sd -> true_fit log sd;
  di_time : forall g t, In (g, t) (hgens hd) -> t <= length log;
  di_bred : forall n g t g' t', nth_error (hgens hd) n = Some (g, t) -> nth_error (hgens hd) (S n) = Some (g', t') ->
            forall i, In i g' -> In i g \/ t <= ist i;
  di_size : hfixed hd = true -> forall n g t g' t', nth_error (hgens hd) n = Some (g, t) -> nth_error (hgens hd) (S n) = Some (g', t') -> length g' = length g
}.
Definition HI (s : hst) : Prop := forall d hd, nth_error (hdemes s) d = Some hd -> DI (evlog s) d hd.

Lemma true_fit_mono log more i : true_fit log i -> true_fit (log ++ more) i.
Proof. intros (d' & H). exists d'. rewrite nth_error_app1; [exact H|]. apply nth_error_Some. congruence. Qed.
Lemma DI_mono log more d hd : DI log d hd -> DI (log ++ more) d hd.
Proof.
  intros [F P Sd T B Zs]. constructor; auto.
  - intros g t i Hg Hi. apply true_fit_mono. eauto.
  - intros st Hs. destruct (P st Hs) as (A & x & v & E). split; [exact A|]. exists x, v. rewrite nth_error_app1; [exact E|]. apply nth_error_Some. congruence.
  - intros sd Hs. apply true_fit_mono. eauto.
  - intros g t Hg. rewrite app_length. specialize (T g t Hg). lia.
Qed.

Lemma nth_error_set_deme l : forall i d j, nth_error (set_deme i d l) j = if Nat.eqb j i && (i <? length l) then Some d else nth_error l j.
Proof.
  induction l as [|x l IH]; intros [|i] d [|j]; simpl; auto.
  - now rewrite andb_false_r.
  - rewrite IH. reflexivity.
Qed.
Lemma set_deme_length l : forall i d, length (set_deme i d l) = length l.
Proof. induction l as [|x l IH]; intros [|i] d; simpl; auto. Qed.
Lemma nth_error_lt {A} (l : list A) i x : nth_error l i = Some x -> i < length l.
Proof. intros H. apply nth_error_Some. congruence. Qed.
Lemma last_gen_snoc hd g t : nth_error (hgens hd ++ [(g, t)]) (length (hgens hd ++ [(g, t)]) - 1) = Some (g, t).
Proof. rewrite app_length. simpl. replace (length (hgens hd) + 1 - 1) with (length (hgens hd)) by lia. rewrite nth_error_app2 by lia. now rewrite Nat.sub_diag. Qed.

(* what build delivers *)
Lemma build_spec s d hd : forall xs g, build s d hd xs = Some g ->
  forall i, In i g ->
    (exists g0 t0, last_gen hd = Some (g0, t0) /\ In i g0) \/
    (exists stamp, In stamp (hpend hd) /\ nth_error (evlog s) stamp = Some (d, ig i, ifit i) /\ ist i = stamp) \/
    (hgens hd = [] /\ hseed hd = Some i).
Proof.
  induction xs as [|x r IH]; intros g H i Hi; simpl in H; [injection H as <-; destruct Hi|].
  destruct (build_one s d hd x) as [i0|] eqn:E1; [|discriminate]. destruct (build s d hd r) as [l|] eqn:E2; [|discriminate].
  injection H as <-. destruct Hi as [<-|Hi]; [|eapply IH; eauto].
  unfold build_one in E1. destruct x as [j|k|].
  - destruct (last_gen hd) as [[g0 t0]|] eqn:L; [|discriminate]. left. exists g0, t0. split; [reflexivity|]. eapply nth_error_In; eauto.
  - destruct (nth_error (hpend hd) k) as [stamp|] eqn:Ek; [|discriminate]. destruct (nth_error (evlog s) stamp) as [[[d' gx] v]|] eqn:El; [|discriminate].
    destruct (Nat.eqb_spec d' d) as [->|]; [|discriminate]. injection E1 as <-. right; left. exists stamp. simpl. split; [eapply nth_error_In; eauto|auto].
  - destruct (hgens hd) eqn:G; [|discriminate]. right; right. auto.
Qed.
Lemma build_length s d hd : forall xs g, build s d hd xs = Some g -> length g = length xs.
Proof.
  induction xs as [|x r IH]; intros g H; simpl in H; [now injection H as <-|].
  destruct (build_one s d hd x); [|discriminate]. destruct (build s d hd r) eqn:E; [|discriminate]. injection H as <-. simpl. f_equal. now apply IH.
Qed.

Lemma HI_init : HI hinit.
Proof. intros d hd H. destruct d; discriminate. Qed.

Lemma HI_step s e s' : HI s -> hstep s e = Some s' -> HI s'.
Proof.
  intros I H. destruct e as [fixed parent strict|d x v|d srcs]; simpl in H.
  - (* HBegin *)
    assert (forall nd, (forall sd, hseed nd = Some sd -> true_fit (evlog s) sd) -> hgens nd = [] -> hpend nd = [] ->
                       HI {| evlog := evlog s; hdemes := hdemes s ++ [nd] |}) as K.
    { intros nd Hs Hg Hp d hd Hd. simpl in *. destruct (Nat.lt_ge_cases d (length (hdemes s))) as [Hlt|Hge].
      - rewrite nth_error_app1 in Hd by assumption. now apply I.
      - rewrite nth_error_app2 in Hd by assumption. destruct (d - length (hdemes s)) as [|k]; [|destruct k; discriminate].
        injection Hd as <-. constructor; rewrite ?Hg, ?Hp; simpl; try tauto; auto.
        + intros n g t g' t' E. destruct n; discriminate.
        + intros _ n g t g' t' E. destruct n; discriminate. }
    destruct parent as [[[p gi] pos]|].
    + destruct (nth_error (hdemes s) p) as [pd|] eqn:Ep; [|discriminate]. destruct (strict && _); [discriminate|].
      destruct (nth_error (hgens pd) gi) as [[g t]|] eqn:Eg; [|discriminate]. destruct (nth_error g pos) as [sd|] eqn:Es; [|discriminate].
      injection H as <-. apply K; auto. simpl. intros sd' [= <-]. eapply (di_fit _ _ _ (I p pd Ep)); eapply nth_error_In; eauto.
    + injection H as <-. apply K; auto. simpl. discriminate.
  - (* HEval *)
    destruct (nth_error (hdemes s) d) as [hd|] eqn:Ed; [|discriminate]. injection H as <-.
    intros d2 hd2 Hd2. simpl in *. rewrite nth_error_set_deme in Hd2. pose proof (nth_error_lt _ _ _ Ed) as Hlt.
    destruct (Nat.eqb_spec d2 d) as [->|N]; simpl in Hd2.
    + apply Nat.ltb_lt in Hlt. rewrite Hlt in Hd2. injection Hd2 as <-. pose proof (DI_mono _ [(d, x, v)] _ _ (I d hd Ed)) as [F P Sd T B Zs].
      constructor; simpl; auto. intros stamp Hs. apply in_app_or in Hs as [Hs|[<-|[]]]; [now apply P|].
      split.
      * unfold tlast. unfold last_gen. simpl. destruct (nth_error (hgens hd) (length (hgens hd) - 1)) as [[g t]|] eqn:E; [|lia].
        pose proof (di_time _ _ _ (I d hd Ed) g t (nth_error_In _ _ E)). lia.
      * exists x, v. rewrite nth_error_app2 by lia. now rewrite Nat.sub_diag.
    + apply DI_mono. now apply I.
  - (* HGen *)
    destruct (nth_error (hdemes s) d) as [hd|] eqn:Ed; [|discriminate]. destruct (build s d hd srcs) as [g|] eqn:Eb; [|discriminate].
    destruct (hfixed hd && _) eqn:Ef; [discriminate|]. injection H as <-.
    intros d2 hd2 Hd2. simpl in *. rewrite nth_error_set_deme in Hd2. pose proof (nth_error_lt _ _ _ Ed) as Hlt.
    destruct (Nat.eqb_spec d2 d) as [->|N]; simpl in Hd2; [|now apply I].
    apply Nat.ltb_lt in Hlt. rewrite Hlt in Hd2. injection Hd2 as <-. pose proof (I d hd Ed) as [F P Sd T B Zs].
    pose proof (build_spec s d hd srcs g Eb) as BS.
    constructor; cbn [hgens hpend hseed hfixed]; auto.
    + intros g1 t1 i Hg Hi. cbn [hgens] in Hg. apply in_app_or in Hg as [Hg|[[= <- <-]|[]]]; [eauto|].
      destruct (BS i Hi) as [(g0 & t0 & L & Hin)|[(stamp & Hs & El & Est)|(_ & Hs)]].
      * unfold last_gen in L. eapply F; [eapply nth_error_In; exact L|exact Hin].
      * exists d. now rewrite Est.
      * now apply Sd.
    + intros stamp [].
    + intros g1 t1 Hg. cbn [hgens] in Hg. apply in_app_or in Hg as [Hg|[[= <- <-]|[]]]; [eauto|lia].
    + intros n g1 t1 g2 t2 E1 E2 i Hi. cbn [hgens] in E1, E2. destruct (Nat.lt_ge_cases (S n) (length (hgens hd))) as [Hl|Hg].
      * rewrite nth_error_app1 in E1, E2 by lia. eapply B; eauto.
      * assert (S n = length (hgens hd)) as En.
        { pose proof (nth_error_lt _ _ _ E2) as X. rewrite app_length in X. simpl in X. lia. }
        rewrite nth_error_app1 in E1 by lia. rewrite nth_error_app2 in E2 by lia. rewrite En, Nat.sub_diag in E2. injection E2 as <- <-.
        destruct (BS i Hi) as [(g0 & t0 & L & Hin)|[(stamp & Hs & El & Est)|(Hnil & _)]].
        -- unfold last_gen in L. replace (length (hgens hd) - 1) with n in L by lia. rewrite E1 in L. injection L as <- <-. now left.
        -- right. destruct (P stamp Hs) as (A & _). unfold tlast, last_gen in A. replace (length (hgens hd) - 1) with n in A by lia. rewrite E1 in A. lia.
        -- rewrite Hnil in En. discriminate.
    + intros Hfx n g1 t1 g2 t2 E1 E2. cbn [hgens hfixed] in E1, E2, Hfx. destruct (Nat.lt_ge_cases (S n) (length (hgens hd))) as [Hl|Hg].
      * rewrite nth_error_app1 in E1, E2 by lia. eapply Zs; eauto.
      * assert (S n = length (hgens hd)) as En.
        { pose proof (nth_error_lt _ _ _ E2) as X. rewrite app_length in X. simpl in X. lia. }
        rewrite nth_error_app1 in E1 by lia. rewrite nth_error_app2 in E2 by lia. rewrite En, Nat.sub_diag in E2. injection E2 as <- <-.
        rewrite Hfx in Ef. simpl in Ef. unfold last_gen in Ef. replace (length (hgens hd) - 1) with n in Ef by lia. rewrite E1 in Ef.
        apply negb_false_iff, Nat.eqb_eq in Ef. auto.
Qed.

Lemma HI_run evs : forall s s', HI s -> hrun s evs = Some s' -> HI s'.
Proof.
  induction evs as [|e r IH]; intros s s' I H; simpl in H; [now injection H as <-|].
  destruct (hstep s e) as [s1|] eqn:E; [|discriminate]. eapply IH; [|exact H]. eapply HI_step; eauto.
Qed.

(* ---------------------------------------------------------------- histories only grow; recorded generations never change *)
Definition grows (hd hd' : hdeme) : Prop := (exists more, hgens hd' = hgens hd ++ more) /\ hseed hd' = hseed hd /\ hpar hd' = hpar hd /\ hfixed hd' = hfixed hd.
Lemma grows_refl hd : grows hd hd.
Proof. split; [exists []; now rewrite app_nil_r|auto]. Qed.
Lemma grows_trans a b c : grows a b -> grows b c -> grows a c.
Proof. intros ((m1 & E1) & A1 & B1 & C1) ((m2 & E2) & A2 & B2 & C2). split; [exists (m1 ++ m2); now rewrite E2, E1, app_assoc|]. repeat split; congruence. Qed.
Lemma hist_prefix_step s e s' : hstep s e = Some s' -> forall d hd, nth_error (hdemes s) d = Some hd -> exists hd', nth_error (hdemes s') d = Some hd' /\ grows hd hd'.
Proof.
  intros H d hd Hd. pose proof (nth_error_lt _ _ _ Hd) as Hlt. destruct e as [fixed parent strict|d0 x v|d0 srcs]; simpl in H.
  - assert (forall nd, s' = {| evlog := evlog s; hdemes := hdemes s ++ [nd] |} -> exists hd', nth_error (hdemes s') d = Some hd' /\ grows hd hd') as K.
    { intros nd ->. exists hd. simpl. rewrite nth_error_app1 by assumption. split; [exact Hd|apply grows_refl]. }
    destruct parent as [[[p gi] pos]|].
    + destruct (nth_error (hdemes s) p); [|discriminate]. destruct (strict && _); [discriminate|].
      destruct (nth_error (hgens h) gi) as [[g t]|]; [|discriminate]. destruct (nth_error g pos); [|discriminate]. injection H as <-. eapply K; reflexivity.
    + injection H as <-. eapply K; reflexivity.
  - destruct (nth_error (hdemes s) d0) as [hd0|] eqn:E0; [|discriminate]. injection H as <-. simpl. rewrite nth_error_set_deme.
    destruct (Nat.eqb_spec d d0) as [->|N]; simpl.
    + pose proof (nth_error_lt _ _ _ E0) as L0. apply Nat.ltb_lt in L0. rewrite L0. eexists; split; [reflexivity|]. rewrite Hd in E0. injection E0 as <-.
      split; [exists []; simpl; now rewrite app_nil_r|auto].
    + exists hd. split; [exact Hd|apply grows_refl].
  - destruct (nth_error (hdemes s) d0) as [hd0|] eqn:E0; [|discriminate]. destruct (build s d0 hd0 srcs) as [g|]; [|discriminate].
    destruct (hfixed hd0 && _); [discriminate|]. injection H as <-. simpl. rewrite nth_error_set_deme.
    destruct (Nat.eqb_spec d d0) as [->|N]; simpl.
    + pose proof (nth_error_lt _ _ _ E0) as L0. apply Nat.ltb_lt in L0. rewrite L0. eexists; split; [reflexivity|]. rewrite Hd in E0. injection E0 as <-.
      split; [eexists; simpl; reflexivity|auto].
    + exists hd. split; [exact Hd|apply grows_refl].
Qed.
Theorem hist_prefix_run evs : forall s s', hrun s evs = Some s' -> forall d hd, nth_error (hdemes s) d = Some hd -> exists hd', nth_error (hdemes s') d = Some hd' /\ grows hd hd'.
Proof.
  induction evs as [|e r IH]; intros s s' H d hd Hd; simpl in H; [injection H as <-; exists hd; split; [exact Hd|apply grows_refl]|].
  destruct (hstep s e) as [s1|] eqn:E; [|discriminate]. destruct (hist_prefix_step s e s1 E d hd Hd) as (h1 & H1 & G1).
  destruct (IH s1 s' H d h1 H1) as (h2 & H2 & G2). exists h2. split; [exact H2|eapply grows_trans; eauto].
Qed.

(* ---------------------------------------------------------------- corollaries for every accepted stream from the empty machine *)
Definition hreach (s : hst) : Prop := exists evs, hrun hinit evs = Some s.
Lemma hreach_HI s : hreach s -> HI s.
Proof. intros (evs & R). eapply HI_run; [apply HI_init|exact R]. Qed.

(* C02: every stored individual carries exactly the value returned by the evaluation that produced it, for exactly its genome *)
Theorem stored_fitness_is_true s d hd g t i : hreach s -> nth_error (hdemes s) d = Some hd -> In (g, t) (hgens hd) -> In i g ->
  exists d', nth_error (evlog s) (ist i) = Some (d', ig i, ifit i).
Proof. intros R Hd Hg Hi. exact (di_fit _ _ _ (hreach_HI s R d hd Hd) g t i Hg Hi). Qed.
Theorem seed_fitness_is_true s d hd sd : hreach s -> nth_error (hdemes s) d = Some hd -> hseed hd = Some sd ->
  exists d', nth_error (evlog s) (ist sd) = Some (d', ig sd, ifit sd).
Proof. intros R Hd Hs. exact (di_seed _ _ _ (hreach_HI s R d hd Hd) sd Hs). Qed.

(* C01: any predicate that holds of every genome the objective was evaluated at holds of every stored genome and every seed *)
Theorem stored_genomes_were_evaluated (P : Z -> Prop) s : hreach s -> (forall d x v, In (d, x, v) (evlog s) -> P x) ->
  forall d hd, nth_error (hdemes s) d = Some hd ->
    (forall g t i, In (g, t) (hgens hd) -> In i g -> P (ig i)) /\ (forall sd, hseed hd = Some sd -> P (ig sd)).
Proof.
  intros R HP d hd Hd. split.
  - intros g t i Hg Hi. destruct (stored_fitness_is_true s d hd g t i R Hd Hg Hi) as (d' & E). eapply HP, nth_error_In; eauto.
  - intros sd Hs. destruct (seed_fitness_is_true s d hd sd R Hd Hs) as (d' & E). eapply HP, nth_error_In; eauto.
Qed.

(* C11: every individual of a generation belonged to the preceding generation of the same deme (same genome, fitness and
   evaluation) or was evaluated after that preceding generation was completed *)
Theorem bred_from_previous s d hd n g t g' t' i : hreach s -> nth_error (hdemes s) d = Some hd ->
  nth_error (hgens hd) n = Some (g, t) -> nth_error (hgens hd) (S n) = Some (g', t') -> In i g' -> In i g \/ t <= ist i.
Proof. intros R Hd E1 E2 Hi. exact (di_bred _ _ _ (hreach_HI s R d hd Hd) n g t g' t' E1 E2 i Hi). Qed.

(* C12: constant generation size for population-based engines *)
Theorem fixed_size s d hd n g t g' t' : hreach s -> nth_error (hdemes s) d = Some hd -> hfixed hd = true ->
  nth_error (hgens hd) n = Some (g, t) -> nth_error (hgens hd) (S n) = Some (g', t') -> length g' = length g.
Proof. intros R Hd Hf E1 E2. exact (di_size _ _ _ (hreach_HI s R d hd Hd) Hf n g t g' t' E1 E2). Qed.

(* C07: the seed of a new deme is an individual of the named generation of its parent — the parent's CURRENT population when
   the event is strict *)
Theorem seed_from_parent s fixed p gi pos strict s' : hstep s (HBegin fixed (Some (p, gi, pos)) strict) = Some s' ->
  exists pd g t sd, nth_error (hdemes s) p = Some pd /\ nth_error (hgens pd) gi = Some (g, t) /\ nth_error g pos = Some sd /\
    (strict = true -> S gi = length (hgens pd)) /\
    nth_error (hdemes s') (length (hdemes s)) = Some {| hgens := []; hpend := []; hfixed := fixed; hseed := Some sd; hpar := Some p |}.
Proof.
  simpl. destruct (nth_error (hdemes s) p) as [pd|] eqn:Ep; [|discriminate]. destruct (strict && _) eqn:Es; [discriminate|].
  destruct (nth_error (hgens pd) gi) as [[g t]|] eqn:Eg; [|discriminate]. destruct (nth_error g pos) as [sd|] eqn:Ed; [|discriminate].
  intros [= <-]. exists pd, g, t, sd. repeat split; auto.
  - intros ->. rewrite andb_true_l in Es. apply negb_false_iff in Es. destruct (length (hgens pd)) as [|m]; [discriminate|]. apply Nat.eqb_eq in Es. now subst.
  - simpl. rewrite nth_error_app2 by lia. now rewrite Nat.sub_diag.
Qed.

(* C04: bests never get worse.  The deme's (tree's) best is python's max over all stored individuals *)
Definition deme_fits (hd : hdeme) : list Z := map ifit (all_inds hd).
Definition tree_fits (s : hst) : list Z := flat_map deme_fits (hdemes s).
Lemma grows_incl hd hd' : grows hd hd' -> incl (deme_fits hd) (deme_fits hd').
Proof.
  intros ((more & E) & _). unfold deme_fits, all_inds. rewrite E, flat_map_app, map_app. apply incl_appl, incl_refl.
Qed.
Theorem deme_best_never_worse mx evs s s' d hd hd' b b' : hrun s evs = Some s' -> nth_error (hdemes s) d = Some hd -> nth_error (hdemes s') d = Some hd' ->
  best_of mx (deme_fits hd) = Some b -> best_of mx (deme_fits hd') = Some b' -> better mx b b' = false.
Proof.
  intros R Hd Hd' B B'. destruct (hist_prefix_run evs s s' R d hd Hd) as (h2 & H2 & G). rewrite Hd' in H2. injection H2 as <-.
  eapply best_incl_monotone; [apply grows_incl; exact G|exact B|exact B'].
Qed.
Lemma tree_fits_incl evs s s' : hrun s evs = Some s' -> incl (tree_fits s) (tree_fits s').
Proof.
  intros R x Hx. unfold tree_fits in *. apply in_flat_map in Hx as (hd & Hin & Hx). apply In_nth_error in Hin as (d & Hd).
  destruct (hist_prefix_run evs s s' R d hd Hd) as (h2 & H2 & G). apply in_flat_map. exists h2. split; [eapply nth_error_In; eauto|]. now apply (grows_incl hd h2 G).
Qed.
Theorem tree_best_never_worse mx evs s s' b b' : hrun s evs = Some s' ->
  best_of mx (tree_fits s) = Some b -> best_of mx (tree_fits s') = Some b' -> better mx b b' = false.
Proof. intros R B B'. eapply best_incl_monotone; [eapply tree_fits_incl; eauto|exact B|exact B']. Qed.
Theorem tree_best_is_best mx s b : best_of mx (tree_fits s) = Some b ->
  In b (tree_fits s) /\ forall d hd x, nth_error (hdemes s) d = Some hd -> In x (deme_fits hd) -> better mx x b = false.
Proof.
  intros B. destruct (best_of_spec mx _ b B) as (I & N). split; [exact I|]. intros d hd x Hd Hx. apply N. unfold tree_fits. apply in_flat_map.
  exists hd. split; [eapply nth_error_In; eauto|exact Hx].
Qed.
