(* Proofs/SproutFacts.v — the sprout filters on every candidate map (C08, C10, C13). *)
From Coq Require Import ZArith List Bool Arith Lia Permutation Sorting.
From HV Require Import Ord ListX Sprout.
Import ListNotations.

Lemma filter_map_length {A B} (f : A -> B) (p : B -> bool) (l : list A) :
  length (filter (fun a => p (f a)) l) = length (filter p (map f l)).
Proof. induction l as [|a l IH]; simpl; auto. destruct (p (f a)); simpl; now rewrite IH. Qed.

(* the candidates of level l that LevelLimit lets through are the level's candidates filtered by ONE cut *)
Lemma level_keys_filter_by_level (K : nat -> Z -> bool) lvl_of l (c : cmap) :
  level_keys lvl_of l (map (fun pk => (fst pk, filter (K (lvl_of (fst pk))) (snd pk))) c) = filter (K l) (level_keys lvl_of l c).
Proof.
  unfold level_keys. induction c as [|[p ks] c IH]; simpl; [reflexivity|].
  rewrite IH. destruct (Nat.eqb_spec (lvl_of p) l) as [->|N]; [now rewrite filter_app|reflexivity].
Qed.
Lemma level_keys_level_limit mx L lvl_of act c l :
  level_keys lvl_of l (level_limit mx L lvl_of act c)
  = filter (keep_under mx (level_cut mx L (act (S l)) (level_keys lvl_of l c))) (level_keys lvl_of l c).
Proof.
  unfold level_limit.
  exact (level_keys_filter_by_level (fun l' => keep_under mx (level_cut mx L (act (S l')) (level_keys lvl_of l' c))) lvl_of l c).
Qed.

(* C08 / C10: LevelLimit never lets more candidates through than there are free slots *)
Lemma level_limit_count mx L lvl_of act c l :
  act (S l) <= L -> length (level_keys lvl_of l (level_limit mx L lvl_of act c)) <= L - act (S l).
Proof.
  intros Ha. rewrite level_keys_level_limit. set (ks := level_keys lvl_of l c). unfold level_cut.
  destruct (Nat.ltb_spec L (act (S l) + length ks)) as [Hov|Hfit]; simpl.
  - rewrite (filter_map_length (good mx) (fun g => (g <? nth (L - act (S l)) (sort_good (map (good mx) ks)) 0)%Z)).
    apply count_better_than_cth. rewrite map_length. lia.
  - pose proof (filter_length_le (fun _ => true) ks). rewrite (filter_ext_in _ (fun _ => true)) by reflexivity.
    pose proof (filter_length_le (fun _ : Z => true) ks). lia.
Qed.

(* ... and fills exactly the free slots when the candidates' fitness values are pairwise distinct *)
Lemma filter_lt_sorted_nodup (s : list Z) (c : nat) :
  StronglySorted Z.le s -> NoDup s -> c < length s -> length (filter (fun g => (g <? nth c s 0)%Z) s) = c.
Proof.
  revert c; induction s as [|x s IH]; intros c Hs Hn Hc; simpl in *; [lia|].
  inversion Hs as [|? ? Hs' Hall]; subst. inversion Hn as [|? ? Hni Hn']; subst. rewrite Forall_forall in Hall.
  destruct c as [|c]; simpl.
  - rewrite Z.ltb_irrefl. apply length_zero_iff_nil, filter_none. intros a Ha. apply Z.ltb_ge. now apply Hall.
  - assert (x < nth c s 0)%Z as Hlt.
    { assert (In (nth c s 0%Z) s) as Hin by (apply nth_In; lia). specialize (Hall _ Hin).
      destruct (Z.eq_dec x (nth c s 0%Z)) as [E|N]; [rewrite E in Hni; contradiction|lia]. }
    apply Z.ltb_lt in Hlt. rewrite Hlt. simpl. rewrite IH; auto. lia.
Qed.
Lemma level_limit_fills mx L lvl_of act c l :
  act (S l) <= L -> NoDup (map (good mx) (level_keys lvl_of l c)) ->
  length (level_keys lvl_of l (level_limit mx L lvl_of act c)) = Nat.min (L - act (S l)) (length (level_keys lvl_of l c)).
Proof.
  intros Ha Hn. rewrite level_keys_level_limit. set (ks := level_keys lvl_of l c) in *. unfold level_cut.
  destruct (Nat.ltb_spec L (act (S l) + length ks)) as [Hov|Hfit]; simpl.
  - rewrite (filter_map_length (good mx) (fun g => (g <? nth (L - act (S l)) (sort_good (map (good mx) ks)) 0)%Z)).
    rewrite (Permutation_filter_length _ _ _ (sort_good_perm (map (good mx) ks))).
    rewrite filter_lt_sorted_nodup; [lia| apply sort_good_sorted | | rewrite sort_good_length, map_length; lia].
    eapply Permutation_NoDup; [apply sort_good_perm|assumption].
  - rewrite (filter_ext_in _ (fun _ => true)) by reflexivity.
    assert (filter (fun _ : Z => true) ks = ks) as -> by (clear; induction ks; simpl; congruence). lia.
Qed.

(* no dropped candidate is strictly better than a kept one *)
Lemma level_limit_best mx cut k k' : keep_under mx cut k = true -> keep_under mx cut k' = false -> better mx k' k = false.
Proof.
  unfold keep_under, better. destruct cut as [c|]; [|discriminate]. intros H1 H2.
  apply Z.ltb_lt in H1. apply Z.ltb_ge in H2. apply Z.ltb_ge. lia.
Qed.

(* removing filters only remove *)
Lemma mask_keys_length ks m : length (mask_keys ks m) <= length ks.
Proof.
  revert m; induction ks as [|k ks IH]; intros m; destruct m as [|b m]; simpl; try lia.
  specialize (IH m). destruct b; simpl; lia.
Qed.
Lemma level_keys_mask lvl_of l c ms : length (level_keys lvl_of l (mask_cmap c ms)) <= length (level_keys lvl_of l c).
Proof.
  unfold level_keys. revert ms; induction c as [|[p ks] c IH]; intros ms; destruct ms as [|m ms]; simpl; try lia.
  specialize (IH ms). pose proof (mask_keys_length ks m). destruct (Nat.eqb (lvl_of p) l); rewrite ?app_length; simpl; lia.
Qed.
Lemma mask_keys_incl ks m k : In k (mask_keys ks m) -> In k ks.
Proof.
  revert m; induction ks as [|x ks IH]; intros m; destruct m as [|b m]; simpl; try tauto.
  destruct b; simpl; intros H; [destruct H as [H|H]; [now left|right; eauto]|right; eauto].
Qed.
Lemma level_limit_incl mx L lvl_of act c p ks : In (p, ks) (level_limit mx L lvl_of act c) -> exists ks0, In (p, ks0) c /\ incl ks ks0.
Proof.
  unfold level_limit. rewrite in_map_iff. intros ([q ks0] & E & Hin). simpl in E. injection E as <- <-.
  exists ks0. split; auto. intros k Hk. now apply filter_In in Hk.
Qed.

(* C13: LevelLimit on (maximise, keys) is LevelLimit on (minimise, negated keys) *)
Lemma good_mirror k : good true k = good false (- k)%Z.
Proof. reflexivity. Qed.
Lemma level_limit_mirror L lvl_of act c :
  level_limit true L lvl_of act c
  = map (fun pk => (fst pk, map Z.opp (snd pk))) (level_limit false L lvl_of act (map (fun pk => (fst pk, map Z.opp (snd pk))) c)).
Proof.
  unfold level_limit. rewrite !map_map. apply map_ext. intros [p ks]. cbn [fst snd]. f_equal.
  assert (forall l, level_keys lvl_of l (map (fun pk => (fst pk, map Z.opp (snd pk))) c) = map Z.opp (level_keys lvl_of l c)) as LK.
  { intros l. unfold level_keys. induction c as [|[q qs] c IH]; simpl; auto. rewrite IH. destruct (Nat.eqb (lvl_of q) l); simpl; now rewrite ?map_app. }
  rewrite LK. set (all := level_keys lvl_of (lvl_of p) c).
  assert (level_cut false L (act (S (lvl_of p))) (map Z.opp all) = level_cut true L (act (S (lvl_of p))) all) as ->.
  { unfold level_cut. rewrite map_length, map_map. reflexivity. }
  induction ks as [|k ks IH]; simpl; auto.
  assert (keep_under false (level_cut true L (act (S (lvl_of p))) all) (- k) = keep_under true (level_cut true L (act (S (lvl_of p))) all) k) as -> by reflexivity.
  destruct (keep_under true _ k); simpl; rewrite IH; [f_equal; lia|reflexivity].
Qed.
