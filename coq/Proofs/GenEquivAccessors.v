(* Proofs/GenEquivAccessors.v — the accessors behind "reported best", TRANSLATED from the current pyhms/demes/abstract_deme.py and
   pyhms/tree.py (Gen/GenAccessors.v): a deme's best is `best_of` over everything in its history, its current best `best_of` over its last
   generation, and the tree's best — computed by the code as the best of the demes' bests — is a stored individual that no stored individual
   of any deme is strictly better than.  (C04; python's max() = best_of, the first maximal element.) *)
From Coq Require Import List Bool Arith ZArith Lia.
From HV Require Import Ord Select SelectFacts GenAccessors.
Import ListNotations.

Lemma flat_map_id {A} (l : list (list A)) : flat_map (fun x => x) l = concat l.
Proof. induction l as [|x r IH]; cbn; [reflexivity|now rewrite IH]. Qed.
Lemma best_of_nil mx : best_of mx [] = None. Proof. reflexivity. Qed.
Lemma guarded_best mx (l : list Z) : (if negb (is_nil l) then best_of mx l else None) = best_of mx l.
Proof. destruct l; reflexivity. Qed.

Theorem gen_deme_history_eq mx h : gen_deme_history mx h = concat h.
Proof. apply flat_map_id. Qed.
Theorem gen_deme_all_individuals_eq mx h : gen_deme_all_individuals mx h = concat (concat h).
Proof. unfold gen_deme_all_individuals. cbv zeta. now rewrite flat_map_id, !gen_deme_history_eq. Qed.
Theorem gen_deme_current_population_eq mx h : gen_deme_current_population mx h = last (concat h) [].
Proof. unfold gen_deme_current_population. cbv zeta. now rewrite !gen_deme_history_eq. Qed.
(* deme.best_individual = max over EVERYTHING the deme ever stored *)
Theorem gen_deme_best_individual_eq mx h : gen_deme_best_individual mx h = best_of mx (concat (concat h)).
Proof. unfold gen_deme_best_individual. rewrite !gen_deme_all_individuals_eq. now destruct (concat (concat h)). Qed.
(* deme.best_current_individual = max over the LAST stored generation *)
Theorem gen_deme_best_current_individual_eq mx h : gen_deme_best_current_individual mx h = best_of mx (last (concat h) []).
Proof. unfold gen_deme_best_current_individual. rewrite !gen_deme_current_population_eq. now destruct (last (concat h) []). Qed.
Theorem gen_deme_metaepoch_count_eq mx h : gen_deme_metaepoch_count mx h = length h - 1.
Proof. reflexivity. Qed.

Theorem deme_best_is_member_and_best mx h b : gen_deme_best_individual mx h = Some b ->
  In b (concat (concat h)) /\ forall x, In x (concat (concat h)) -> better mx x b = false.
Proof. rewrite gen_deme_best_individual_eq. apply best_of_spec. Qed.

(* ---------------------------------------------------------------- the tree: best of the demes' bests = best of everything *)
Lemma in_somes {A} (l : list (option A)) x : In x (somes l) <-> In (Some x) l.
Proof.
  induction l as [|[y|] r IH]; cbn; [tauto| |].
  - rewrite IH. split; intros [H|H]; auto; [left; congruence|left; congruence].
  - rewrite IH. split; [auto|intros [H|H]; [discriminate|exact H]].
Qed.
Lemma better_trans_false mx x y z : better mx x y = false -> better mx y z = false -> better mx x z = false.
Proof. unfold better. rewrite !Z.ltb_ge. lia. Qed.

Definition all_demes_of (lv : list (list (list (list (list Z))))) : list (list (list (list Z))) := concat lv.
Theorem tree_best_is_member_and_best mx lv b : gen_tree_best_individual mx lv = Some b ->
  (exists h, In h (all_demes_of lv) /\ In b (concat (concat h))) /\
  (forall h x, In h (all_demes_of lv) -> In x (concat (concat h)) -> better mx x b = false).
Proof.
  unfold gen_tree_best_individual. intros H. apply best_of_spec in H as (Hin & Hbest). split.
  - apply in_somes in Hin. apply in_flat_map in Hin as (level & Hl & Hin). apply in_map_iff in Hin as (h & E & Hh). apply filter_In in Hh as (Hh & _).
    exists h. split; [unfold all_demes_of; apply in_concat; now exists level|]. now apply deme_best_is_member_and_best in E as (E & _).
  - intros h x Hh Hx. unfold all_demes_of in Hh. apply in_concat in Hh as (level & Hl & Hh).
    assert (N : concat (concat h) <> []) by (intros E; rewrite E in Hx; contradiction).
    destruct (best_of_some mx _ N) as (bh & Ebh). rewrite <- gen_deme_best_individual_eq in Ebh.
    destruct (deme_best_is_member_and_best mx h bh Ebh) as (_ & Bh).
    apply (better_trans_false mx x bh b); [now apply Bh|]. apply Hbest. apply in_somes. apply in_flat_map. exists level. split; [exact Hl|].
    apply in_map_iff. exists h. split; [exact Ebh|]. apply filter_In. split; [exact Hh|]. now rewrite Ebh.
Qed.

(* AbstractDeme.centroid: the mean of the last generation stored — of whatever the history holds NOW, no memo *)
From HV Require Far.
Theorem gen_deme_centroid_eq {M} (mean : list Z -> M) mx h : gen_deme_centroid mean mx h = Far.centroid mean (concat h).
Proof. unfold gen_deme_centroid, Far.centroid, Far.current. now rewrite gen_deme_current_population_eq. Qed.
Theorem gen_deme_centroid_current {M} (mean : list Z -> M) mx h g : gen_deme_centroid mean mx (h ++ [[g]]) = mean g.
Proof. rewrite gen_deme_centroid_eq, concat_app. cbn [concat]. rewrite app_nil_r. unfold Far.centroid, Far.current. now rewrite last_last. Qed.
