(* Proofs/NBCFacts.v — the coded nearest-better clustering returns exactly the defined seeds (C15): for every sorted population
   (any ties), every distance matrix and every threshold. *)
From Coq Require Import ZArith List Bool Arith Lia Sorting.
From HV Require Import NBC.
Import ListNotations.
Local Open Scope Z_scope.

Lemma fold_min_le (l : list Z) : forall a, fold_left Z.min l a <= a /\ forall x, In x l -> fold_left Z.min l a <= x.
Proof.
  induction l as [|y l IH]; intros a; simpl; [split; [lia|tauto]|]. destruct (IH (Z.min a y)) as (A & B). split; [lia|].
  intros x [->|Hx]; [lia|auto].
Qed.
Lemma fold_min_in (l : list Z) : forall a, fold_left Z.min l a = a \/ In (fold_left Z.min l a) l.
Proof.
  induction l as [|y l IH]; intros a; simpl; [auto|]. destruct (IH (Z.min a y)) as [E|I]; [|auto].
  rewrite E. destruct (Z.min_spec a y) as [(_ & ->)|(_ & ->)]; auto.
Qed.

Section Facts.
  Variable D : nat -> nat -> Z.

  (* min_dist i k is the minimum of D i j over j < k (k >= 1) *)
  Lemma min_dist_spec i k : (1 <= k)%nat ->
    (forall j, (j < k)%nat -> min_dist D i k <= D i j) /\ exists j, (j < k)%nat /\ min_dist D i k = D i j.
  Proof.
    intros Hk. unfold min_dist. destruct (fold_min_le (map (D i) (seq 1 (k - 1))) (D i 0)) as (A & B). split.
    - intros j Hj. destruct j as [|j]; [exact A|]. apply B, in_map, in_seq. lia.
    - destruct (fold_min_in (map (D i) (seq 1 (k - 1))) (D i 0)) as [E|I]; [exists O; split; [lia|exact E]|].
      apply in_map_iff in I as (j & E & Hj). apply in_seq in Hj. exists j. split; [lia|now rewrite E].
  Qed.

  (* in a best-first sorted population the positions before the first individual with the same fitness are exactly the
     strictly better ones *)
  Lemma first_eq_spec (gs : list Z) : StronglySorted Z.le gs -> forall i, (i < length gs)%nat ->
    let g := nth i gs 0 in (first_eq g gs <= i)%nat /\ nth (first_eq g gs) gs 0 = g /\ forall j, (j < length gs)%nat -> ((j < first_eq g gs)%nat <-> nth j gs 0 < g).
  Proof.
    induction gs as [|x gs IH]; intros Hs i Hi; simpl in Hi; [lia|]. inversion Hs as [|? ? S' F]; subst. rewrite Forall_forall in F.
    cbv zeta. destruct i as [|i]; simpl.
    - rewrite Z.eqb_refl. split; [lia|]. split; [reflexivity|]. intros j Hj. split; [lia|]. intros H. destruct j; [lia|].
      specialize (F (nth j gs 0) ltac:(apply nth_In; simpl in Hj; lia)). lia.
    - assert (Hi' : (i < length gs)%nat) by lia. specialize (IH S' i Hi'). cbv zeta in IH. destruct IH as (A & B & C).
      set (g := nth i gs 0) in *. assert (x <= g) as Hx by (apply F, nth_In; lia).
      destruct (Z.eqb_spec x g) as [E|N].
      + split; [lia|]. split; [exact E|]. intros j Hj. split; [lia|]. intros H. destruct j as [|j]; simpl in H; [lia|].
        specialize (F (nth j gs 0) ltac:(apply nth_In; simpl in Hj; lia)). lia.
      + split; [lia|]. split; [exact B|]. intros j Hj. destruct j as [|j]; simpl; [split; [lia|intros _; lia]|].
        rewrite <- (C j ltac:(simpl in Hj; lia)). lia.
  Qed.

  (* the candidate set of the DEFINITION: the best only, for an individual tied with the best; all strictly better ones otherwise *)
  Definition cand (gs : list Z) (i j : nat) : Prop :=
    if nth i gs 0 =? nth 0 gs 0 then j = O else (j < length gs)%nat /\ nth j gs 0 < nth i gs 0.

  Theorem nbd_is_nearest_better_distance gs i : StronglySorted Z.le gs -> (0 < i < length gs)%nat ->
    (forall j, cand gs i j -> nbd D gs i <= D i j) /\ exists j, cand gs i j /\ nbd D gs i = D i j.
  Proof.
    intros Hs Hi. unfold nbd, ncand, cand. destruct (first_eq_spec gs Hs i ltac:(lia)) as (A & B & C). cbv zeta in *.
    destruct (Z.eqb_spec (nth i gs 0) (nth 0 gs 0)) as [E|N].
    - destruct (min_dist_spec i 1 ltac:(lia)) as (M1 & j & Hj & M2). assert (j = O) as -> by lia. split; [intros j' ->; lia|exists O; auto].
    - set (g := nth i gs 0) in *. assert (1 <= first_eq g gs)%nat as K.
      { destruct (first_eq g gs) eqn:F0; [|lia]. congruence. }
      destruct (min_dist_spec i (first_eq g gs) K) as (M1 & j & Hj & M2). split.
      + intros j' (L & H). apply M1. now apply C.
      + exists j. split; [|exact M2]. split; [lia|]. apply C; lia.
  Qed.

  (* cluster() returns exactly: the best individual, plus every individual whose nearest-better distance exceeds the threshold *)
  Theorem nbc_returns_defined_seeds gs thr i : In i (nbc D gs thr) <-> i = O \/ ((0 < i < length gs)%nat /\ thr < nbd D gs i).
  Proof.
    unfold nbc. simpl. rewrite filter_In, in_seq, Z.ltb_lt. split.
    - intros [<-|((A & B) & C)]; [now left|right]. split; [lia|exact C].
    - intros [->|((A & B) & C)]; [now left|right]. split; [lia|exact C].
  Qed.
  Theorem nbc_subset gs thr i : (1 <= length gs)%nat -> In i (nbc D gs thr) -> (i < length gs)%nat.
  Proof. intros L H. apply nbc_returns_defined_seeds in H as [->|((A & B) & _)]; lia. Qed.
  Theorem nbc_no_duplicates gs thr : NoDup (nbc D gs thr).
  Proof.
    unfold nbc. constructor; [rewrite filter_In, in_seq; lia|]. apply NoDup_filter, seq_NoDup.
  Qed.
End Facts.

(* uniform scaling of all distances (and of the threshold, which is a mean of them times a constant) changes nothing;
   translation leaves the distance matrix itself unchanged *)
Lemma fold_min_scale c (l : list Z) : 0 < c -> forall a, fold_left Z.min (map (Z.mul c) l) (c * a) = c * fold_left Z.min l a.
Proof. intros Hc. induction l as [|y l IH]; intros a; simpl; [reflexivity|]. rewrite <- IH. f_equal. rewrite Z.mul_min_distr_nonneg_l; lia. Qed.
Theorem nbc_scale D c gs thr : 0 < c -> nbc (fun i j => c * D i j) gs (c * thr) = nbc D gs thr.
Proof.
  intros Hc. unfold nbc. f_equal. apply filter_ext. intros i. unfold nbd, min_dist.
  rewrite <- (map_map (D i) (Z.mul c)), fold_min_scale by assumption.
  set (m := fold_left Z.min _ _). destruct (Z.ltb_spec thr m), (Z.ltb_spec (c * thr) (c * m)); auto; nia.
Qed.
Theorem nbc_ext D D' gs thr : (forall i j, D i j = D' i j) -> nbc D gs thr = nbc D' gs thr.
Proof.
  intros E. unfold nbc. f_equal. apply filter_ext. intros i. unfold nbd, min_dist. rewrite E. rewrite (map_ext (D i) (D' i)) by (intros; apply E). reflexivity.
Qed.
