(* Proofs/ProblemFacts.v — laws of wrapper stacks of ANY depth and order, over ALL call sequences (C16, C03). *)
From Coq Require Import ZArith List Bool Lia Arith.
From HV Require Import F64 WMonad Problem.
Import ListNotations.
Open Scope Z_scope.

Section Facts.
  Context {G : Type} (f : G -> F).

  (* the first d wrappers forwarded the call and saw the value v come back *)
  Fixpoint upd_stack (st : stack) (d : nat) (v : F) : stack :=
    match st, d with
    | (k, s) :: rest, S d' => (k, local k s v) :: upd_stack rest d' v
    | _, _ => st
    end.

  Definition invoked (st : stack) : bool := Nat.eqb (depth st) (length st).
  Definition result (st : stack) (b : base G) (x : G) : F := if invoked st then f x else sentinel (b_max b).
  Definition base_after (st : stack) (b : base G) (x : G) : base G :=
    if invoked st then {| b_max := b_max b; b_calls := b_calls b ++ [x] |} else b.

  Lemma depth_le_length (st : stack) : (depth st <= length st)%nat.
  Proof. induction st as [|[k s] r IH]; simpl; [lia|]. destruct (refuses k s); simpl; lia. Qed.

  (* ---- one call: complete characterisation of eval_stack ---- *)
  Lemma eval_stack_char (st : stack) (x : G) (b : base G) :
    eval_stack f st x b = (result st b x, (upd_stack st (depth st) (result st b x), base_after st b x)).
  Proof.
    induction st as [|[k s] r IH]; [reflexivity|].
    cbn [eval_stack]. unfold m_step. cbn [w_self w_inner i_eval i_max fst snd].
    unfold result, base_after, invoked in *. cbn [depth length].
    destruct (refuses k s) eqn:R.
    - cbn [Nat.eqb]. reflexivity.
    - rewrite IH. cbn [fst snd w_self w_inner upd_stack Nat.eqb].
      destruct (Nat.eqb (depth r) (length r)); reflexivity.
  Qed.

  Lemma upd_stack_kinds st d v : map fst (upd_stack st d v) = map fst st.
  Proof. revert d; induction st as [|[k s] r IH]; intros [|d]; simpl; try reflexivity. now rewrite IH. Qed.
  Lemma upd_stack_length st d v : length (upd_stack st d v) = length st.
  Proof. rewrite <- (map_length fst), upd_stack_kinds, map_length. reflexivity. Qed.

  Lemma upd_stack_nth st d v j k s :
    nth_error st j = Some (k, s) ->
    nth_error (upd_stack st d v) j = Some (k, if (j <? d)%nat then local k s v else s).
  Proof.
    revert d j; induction st as [|[k0 s0] r IH]; intros d j H; [destruct j; discriminate|].
    destruct d as [|d]; destruct j as [|j]; simpl in *; try assumption.
    - now injection H as -> ->.
    - rewrite (IH d j H). reflexivity.
  Qed.

  (* depth and refusal: wrapper j is reached iff j <= depth; when reached it forwards iff it does not refuse *)
  Lemma depth_forward st j k s :
    nth_error st j = Some (k, s) -> (j <= depth st)%nat -> ((j <? depth st)%nat = negb (refuses k s)).
  Proof.
    revert j; induction st as [|[k0 s0] r IH]; intros j H Hd; [destruct j; discriminate|].
    simpl in *. destruct j as [|j]; simpl in *.
    - injection H as -> ->. destruct (refuses k s); reflexivity.
    - destruct (refuses k0 s0); [lia|]. apply (IH j H). lia.
  Qed.

  (* ---- transparency (one call) ---- *)
  Lemma transparent_call st x b :
    let '(v, (st', b')) := eval_stack f st x b in
    map fst st' = map fst st /\ b_max b' = b_max b /\
    ((v = f x /\ b_calls b' = b_calls b ++ [x]) \/
     (v = sentinel (b_max b) /\ b_calls b' = b_calls b /\ exists j k s, nth_error st j = Some (k, s) /\ refuses k s = true)).
  Proof.
    rewrite eval_stack_char. split; [apply upd_stack_kinds|].
    unfold result, base_after, invoked. destruct (Nat.eqb (depth st) (length st)) eqn:E.
    - split; [reflexivity|]. left; auto.
    - split; [reflexivity|]. right. repeat split.
      apply Nat.eqb_neq in E. clear x b. induction st as [|[k s] r IH]; simpl in *; [lia|].
      destruct (refuses k s) eqn:R.
      + exists O, k, s; auto.
      + destruct IH as (j & k' & s' & H1 & H2); [lia|]. exists (S j), k', s'; auto.
  Qed.

  (* ---- sequences of calls ---- *)
  Fixpoint trace (st : stack) (b : base G) (xs : list G) : list (nat * F) :=
    match xs with
    | [] => []
    | x :: xs' => let '(v, (st', b')) := eval_stack f st x b in (depth st, v) :: trace st' b' xs'
    end.
  Definition final (st : stack) (b : base G) (xs : list G) : stack * base G := snd (run_calls f st b xs).

  Definition fwd (j : nat) (tr : list (nat * F)) : list (nat * F) := filter (fun e => (j <? fst e)%nat) tr.
  Definition reached (j : nat) (tr : list (nat * F)) : list (nat * F) := filter (fun e => (j <=? fst e)%nat) tr.

  Lemma run_calls_cons st b x xs :
    run_calls f st b (x :: xs) =
    let '(v, (st', b')) := eval_stack f st x b in let '(vs, r) := run_calls f st' b' xs in (v :: vs, r).
  Proof. reflexivity. Qed.

  (* projection: wrapper j only ever applies its own local step to the values it forwarded *)
  Lemma final_nth st b xs j k s :
    nth_error st j = Some (k, s) ->
    nth_error (fst (final st b xs)) j = Some (k, fold_left (local k) (map snd (fwd j (trace st b xs))) s).
  Proof.
    revert st b s; induction xs as [|x xs IH]; intros st b s H; [exact H|].
    unfold final in *. rewrite run_calls_cons. cbn [trace]. rewrite eval_stack_char.
    destruct (run_calls f _ _ xs) as [vs r] eqn:E. cbn [snd].
    specialize (IH (upd_stack st (depth st) (result st b x)) (base_after st b x) _ (upd_stack_nth _ _ _ _ _ _ H)).
    rewrite E in IH. cbn [snd] in IH. rewrite IH. unfold fwd. cbn [filter fst].
    destruct (j <? depth st)%nat; reflexivity.
  Qed.

  Lemma returned_values st b xs : fst (run_calls f st b xs) = map snd (trace st b xs).
  Proof.
    revert st b; induction xs as [|x xs IH]; intros st b; [reflexivity|].
    rewrite run_calls_cons. cbn [trace]. rewrite eval_stack_char.
    specialize (IH (upd_stack st (depth st) (result st b x)) (base_after st b x)).
    destruct (run_calls f _ _ xs) as [vs r]. cbn [fst map snd] in *. now rewrite IH.
  Qed.

  (* ---- per-wrapper laws on the forwarded values ---- *)
  Lemma local_static k s v :
    eval_cutoff (local k s v) = eval_cutoff s /\ global_optima (local k s v) = global_optima s /\ precision (local k s v) = precision s.
  Proof. destruct k; simpl; auto. destruct (_ && _); simpl; auto. Qed.

  Lemma counter_fold k vs s : k <> KWrapper -> n_evals (fold_left (local k) vs s) = n_evals s + Z.of_nat (length vs).
  Proof.
    intros Hk. revert s; induction vs as [|v vs IH]; intros s; simpl fold_left; [simpl; lia|].
    rewrite IH. assert (n_evals (local k s v) = n_evals s + 1) as ->.
    { destruct k; simpl; try reflexivity; try congruence. destruct (_ && _); reflexivity. }
    simpl length. lia.
  Qed.
  Lemma stats_fold vs s : length (durations (fold_left (local KStats) vs s)) = (length (durations s) + length vs)%nat.
  Proof. revert s; induction vs as [|v vs IH]; intros s; simpl fold_left; [simpl; lia|]. rewrite IH. simpl. rewrite app_length. simpl. lia. Qed.

  (* precision: 1-based index (in the wrapper's own count) of the first forwarded value within the precision; sticky *)
  Fixpoint first_hit (p : F -> bool) (vs : list F) : option nat :=
    match vs with [] => None | v :: r => if p v then Some O else option_map S (first_hit p r) end.
  Lemma precision_fold vs s :
    let s' := fold_left (local KPrecision) vs s in
    hit_precision s' = hit_precision s || existsb (prec_test s) vs /\
    eta s' = if hit_precision s then eta s
             else match first_hit (prec_test s) vs with Some i => Some (n_evals s + Z.of_nat i + 1) | None => eta s end.
  Proof.
    revert s; induction vs as [|v vs IH]; intros s; cbn [fold_left existsb first_hit].
    - rewrite orb_false_r. split; [reflexivity|]. now destruct (hit_precision s).
    - specialize (IH (local KPrecision s v)). cbv zeta in IH. destruct IH as [IH1 IH2]. cbv zeta.
      assert (forall w, prec_test (local KPrecision s v) w = prec_test s w) as P.
      { intros w. unfold prec_test. destruct (local_static KPrecision s v) as (_ & -> & ->). reflexivity. }
      rewrite IH1, IH2.
      assert (existsb (prec_test (local KPrecision s v)) vs = existsb (prec_test s) vs) as ->.
      { clear -P. induction vs as [|w ws IHw]; cbn [existsb]; [reflexivity|]. now rewrite P, IHw. }
      assert (first_hit (prec_test (local KPrecision s v)) vs = first_hit (prec_test s) vs) as ->.
      { clear -P. induction vs as [|w ws IHw]; cbn [first_hit]; [reflexivity|]. now rewrite P, IHw. }
      simpl local. assert (prec_test (bump s) v = prec_test s v) as -> by reflexivity.
      change (hit_precision (bump s)) with (hit_precision s).
      destruct (hit_precision s) eqn:Hh.
      + rewrite andb_false_r. simpl. rewrite Hh. auto.
      + rewrite andb_true_r. destruct (prec_test s v) eqn:Pv; simpl.
        * split; [reflexivity|]. f_equal. lia.
        * rewrite Hh. split; [reflexivity|]. destruct (first_hit (prec_test s) vs); simpl; [f_equal; lia|reflexivity].
  Qed.

  (* cutoff: forwards exactly the first (cutoff - n) calls that reach it *)
  Lemma cutoff_law st b xs j s :
    nth_error st j = Some (KCutoff, s) ->
    fwd j (trace st b xs) = firstn (Z.to_nat (eval_cutoff s - n_evals s)) (reached j (trace st b xs)).
  Proof.
    revert st b s; induction xs as [|x xs IH]; intros st b s H; [now rewrite firstn_nil|].
    cbn [trace]. rewrite eval_stack_char. unfold fwd, reached in *. cbn [filter fst].
    pose proof (upd_stack_nth st (depth st) (result st b x) _ _ _ H) as H'.
    specialize (IH _ (base_after st b x) _ H').
    destruct (j <=? depth st)%nat eqn:Hr.
    - apply Nat.leb_le in Hr. rewrite (depth_forward _ _ _ _ H Hr) in *. simpl refuses in *.
      destruct (n_evals s >=? eval_cutoff s) eqn:Rf; cbn [negb] in *.
      + rewrite IH. replace (Z.to_nat (eval_cutoff s - n_evals s)) with O by lia. reflexivity.
      + rewrite IH. simpl local. cbn [eval_cutoff n_evals bump].
        replace (Z.to_nat (eval_cutoff s - n_evals s)) with (S (Z.to_nat (eval_cutoff s - (n_evals s + 1)))) by lia.
        reflexivity.
    - assert ((j <? depth st)%nat = false) as E by (apply Nat.ltb_ge; apply Nat.leb_gt in Hr; lia).
      rewrite E in *. exact IH.
  Qed.

  (* the objective is invoked exactly for the calls every wrapper forwarded *)
  Lemma calls_law st b xs :
    length (b_calls (snd (final st b xs))) = (length (b_calls b) + length (filter (fun e => Nat.eqb (fst e) (length st)) (trace st b xs)))%nat
    /\ length (fst (final st b xs)) = length st.
  Proof.
    revert st b; induction xs as [|x xs IH]; intros st b; [simpl; split; lia|].
    unfold final in *. rewrite run_calls_cons. cbn [trace]. rewrite eval_stack_char.
    specialize (IH (upd_stack st (depth st) (result st b x)) (base_after st b x)).
    destruct (run_calls f _ _ xs) as [vs r]. cbn [snd fst filter] in *. destruct IH as [IH1 IH2].
    rewrite upd_stack_length in *. rewrite IH1, IH2. split; [|reflexivity].
    unfold base_after, invoked. destruct (Nat.eqb (depth st) (length st)); simpl; rewrite ?app_length; simpl; lia.
  Qed.

  Lemma filter_length_le {A} (p q : A -> bool) (l : list A) :
    (forall a, p a = true -> q a = true) -> (length (filter p l) <= length (filter q l))%nat.
  Proof. intros H. induction l as [|a l IH]; simpl; [lia|]. destruct (p a) eqn:E; [rewrite (H a E); simpl; lia|]. destruct (q a); simpl; lia. Qed.

  (* an evaluation budget is hard: no more than cutoff - n further invocations, whatever the call sequence and the rest of the stack *)
  Lemma cutoff_hard st b xs j s :
    nth_error st j = Some (KCutoff, s) ->
    (length (b_calls (snd (final st b xs))) <= length (b_calls b) + Z.to_nat (eval_cutoff s - n_evals s))%nat.
  Proof.
    intros H. destruct (calls_law st b xs) as [-> _].
    assert (j < length st)%nat as Hj by (apply nth_error_Some; congruence).
    pose proof (filter_length_le (fun e => Nat.eqb (fst e) (length st)) (fun e => (j <? fst e)%nat) (trace st b xs)) as L.
    assert (length (fwd j (trace st b xs)) <= Z.to_nat (eval_cutoff s - n_evals s))%nat.
    { rewrite (cutoff_law _ _ _ _ _ H). rewrite firstn_length. lia. }
    unfold fwd in *. enough (length (filter (fun e => Nat.eqb (fst e) (length st)) (trace st b xs)) <= length (filter (fun e => (j <? fst e)%nat) (trace st b xs)))%nat by lia.
    apply L. intros a Ha. apply Nat.eqb_eq in Ha. apply Nat.ltb_lt. lia.
  Qed.

  (* transparency over a sequence: every returned value is the objective's or the sentinel of a refused call *)
  Lemma transparent_seq st b xs :
    Forall2 (fun x e => snd e = if Nat.eqb (fst e) (length st) then f x else sentinel (b_max b)) xs (trace st b xs).
  Proof.
    revert st b; induction xs as [|x xs IH]; intros st b; [constructor|].
    cbn [trace]. rewrite eval_stack_char. constructor.
    - reflexivity.
    - specialize (IH (upd_stack st (depth st) (result st b x)) (base_after st b x)).
      rewrite upd_stack_length in IH.
      assert (b_max (base_after st b x) = b_max b) as E by (unfold base_after; destruct (invoked st); reflexivity).
      now rewrite E in IH.
  Qed.
End Facts.
