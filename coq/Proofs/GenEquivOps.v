(* Proofs/GenEquivOps.v — the per-gene arithmetic of the variational operators and samplers, TRANSLATED from the current sea.py, de.py,
   lhs_deme.py, sobol_deme.py and initializers.py (Gen/GenOps.v), is the operator model of Model/Ops.v that C01's theorems are about. *)
From Coq Require Import ZArith Bool.
From HV Require Import F64 Bounds Ops GenCommon GenEquivCommon GenOps.

Theorem gaussian_gene_eq x noise mask lo hi : gen_gaussian_gene x noise mask lo hi = gauss_full x noise mask lo hi.
Proof. unfold gen_gaussian_gene, gauss_full, gauss_gene, gauss_delta. rewrite toroidal_eq. reflexivity. Qed.
Theorem uniform_gene_eq mask sample x : gen_uniform_gene mask sample x = uniform_gene mask sample x.
Proof. reflexivity. Qed.
(* both children of an arithmetic crossover are convex combinations a*u + (1-a)*v of the two parents, clipped to the box *)
Theorem arith_first_eq a x y lo hi : gen_arith_clip (gen_arith_first a x y) lo hi = arith_gene a x y lo hi.
Proof. reflexivity. Qed.
Theorem arith_second_eq a x y lo hi : gen_arith_clip (gen_arith_second a x y) lo hi = crossover_gene (fadd (fmul (fsub fone a) x) (fmul a y)) lo hi.
Proof. reflexivity. Qed.
Theorem de_gene_eq take f r0 r1 r2 x lo hi :
  gen_de_crossover_gene take (gen_de_donor_repair (gen_de_donor f r0 r1 r2) lo hi) x = de_full take f r0 r1 r2 x lo hi.
Proof. unfold gen_de_crossover_gene, gen_de_donor_repair, gen_de_donor, de_full, de_gene, de_donor. rewrite reflect_eq. reflexivity. Qed.
Theorem de_dither_gene_eq take f r0 r1 r2 x lo hi :
  gen_de_crossover_gene take (gen_de_dither_donor_repair (gen_de_dither_donor f r0 r1 r2) lo hi) x = de_full take f r0 r1 r2 x lo hi.
Proof. unfold gen_de_crossover_gene, gen_de_dither_donor_repair, gen_de_dither_donor, de_full, de_gene, de_donor. rewrite reflect_eq. reflexivity. Qed.
(* SHADE: whatever the current-to-pbest donor is, it goes through the same reflect repair and gene-wise crossover *)
Theorem pbest_gene_eq take f x pb r0 ra lo hi :
  gen_de_crossover_gene take (gen_pbest_repair (gen_pbest_donor f x pb r0 ra) lo hi) x = de_gene take (gen_pbest_donor f x pb r0 ra) x lo hi.
Proof. unfold gen_de_crossover_gene, gen_pbest_repair, de_gene. rewrite reflect_eq. reflexivity. Qed.
Theorem lhs_scale_eq lo hi s : gen_LHSDeme_scale lo hi s = scale_gene lo hi s.
Proof. reflexivity. Qed.
Theorem sobol_scale_eq lo hi s : gen_SobolDeme_scale lo hi s = scale_gene lo hi s.
Proof. reflexivity. Qed.
(* sample_normal accepts a draw exactly when every coordinate is inside its own bounds *)
Theorem in_bounds_gene_eq x lo hi : gen_in_bounds_gene x lo hi = in_box1 x lo hi.
Proof. reflexivity. Qed.
