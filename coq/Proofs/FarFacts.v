(* Proofs/FarFacts.v — every sprout accepted by FarEnough / NBC_FarEnough is strictly farther than the threshold from the
   centroid of every deme the filter is configured to consider (C09). *)
From Coq Require Import ZArith List Bool Arith Lia.
From HV Require Import Far.
Import ListNotations.

Section Facts.
  Context {Cand Sib : Type} (dist : Cand -> Sib -> Z) (active : Sib -> bool).
  Lemma far_enough_spec thr sibs : forall cands c, In c (far_enough dist thr sibs cands) <-> In c cands /\ forall s, In s sibs -> (thr < dist c s)%Z.
  Proof.
    induction sibs as [|s sibs IH]; intros cands c; simpl.
    - split; [intros H; split; [exact H|intros s []]|tauto].
    - rewrite IH, filter_In, Z.ltb_lt. split.
      + intros ((A & B) & C). split; [exact A|]. intros s' [<-|H]; auto.
      + intros (A & B). split; [split; [exact A|apply B; now left]|]. intros s' H. apply B. now right.
  Qed.
  (* soundness and completeness of the whole filter *)
  Theorem far_filter_spec only_active thr level_below cands c :
    In c (far_filter dist active only_active thr level_below cands) <->
    In c cands /\ forall s, In s level_below -> (active s = true \/ only_active = false) -> (thr < dist c s)%Z.
  Proof.
    unfold far_filter. rewrite far_enough_spec. unfold considered. split; intros (A & B); split; auto.
    - intros s Hs Ha. apply B. apply filter_In. split; [exact Hs|]. destruct Ha as [->| ->]; [reflexivity|now rewrite orb_true_r].
    - intros s Hs. apply filter_In in Hs as (Hs & Ha). apply B; [exact Hs|]. apply orb_prop in Ha as [Ha|Ha]; [now left|right]. now apply negb_true_iff in Ha.
  Qed.
  Theorem far_filter_only_removes only_active thr level_below cands c : In c (far_filter dist active only_active thr level_below cands) -> In c cands.
  Proof. intros H. now apply far_filter_spec in H. Qed.
End Facts.

(* the centroid is that of the current population: appending a generation moves it to the new generation, whatever was read before *)
Theorem centroid_is_current {G M} (mean : list G -> M) (history : list (list G)) (g : list G) : centroid mean (history ++ [g]) = mean g.
Proof. unfold centroid, current. now rewrite last_last. Qed.
