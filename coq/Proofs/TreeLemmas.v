(* Proofs/TreeLemmas.v — list/record lemmas for the HMS machine. *)
From Coq Require Import List Bool Arith ZArith Lia.
From HV Require Import Ord Sprout Tree.
Import ListNotations.

Lemma upd_length i f l : length (upd i f l) = length l.
Proof. revert i; induction l as [|d r IH]; intros [|i]; simpl; auto. Qed.

Lemma dnth_upd_same i f l : i < length l -> dnth i (upd i f l) = f (dnth i l).
Proof. revert i; induction l as [|d r IH]; intros [|i] H; simpl in *; try lia; auto. apply IH. lia. Qed.
Lemma dnth_upd_other i j f l : i <> j -> dnth j (upd i f l) = dnth j l.
Proof. revert i j; induction l as [|d r IH]; intros [|i] [|j] H; simpl in *; try lia; auto. apply IH. lia. Qed.
Lemma dnth_upd i j f l : dnth j (upd i f l) = if Nat.eqb i j && (i <? length l) then f (dnth j l) else dnth j l.
Proof.
  destruct (Nat.eqb_spec i j) as [->|N]; simpl.
  - destruct (Nat.ltb_spec j (length l)); [now apply dnth_upd_same|].
    revert j H; induction l as [|d r IH]; intros [|j] H; simpl in *; try lia; auto. apply IH. lia.
  - now apply dnth_upd_other.
Qed.
Lemma dnth_map f l i : i < length l -> dnth i (map f l) = f (dnth i l).
Proof. revert i; induction l as [|d r IH]; intros [|i] H; simpl in *; try lia; auto. apply IH. lia. Qed.
Lemma dnth_app_l l l' i : i < length l -> dnth i (l ++ l') = dnth i l.
Proof. intros. unfold dnth. now apply app_nth1. Qed.
Lemma dnth_app_r l x : dnth (length l) (l ++ [x]) = x.
Proof. unfold dnth. rewrite app_nth2 by lia. now rewrite Nat.sub_diag. Qed.

(* pointwise reasoning on lists of demes *)
Lemma list_eq_dnth (l l' : list deme) : length l = length l' -> (forall i, i < length l -> dnth i l = dnth i l') -> l = l'.
Proof.
  revert l'; induction l as [|d r IH]; intros [|d' r'] HL H; simpl in *; try lia; auto.
  assert (d = d') as -> by (apply (H 0); lia).
  f_equal. apply IH; [lia|]. intros i Hi. apply (H (S i)). lia.
Qed.

(* ---- totals ---- *)
Lemma total_evals_app l l' : total_evals (l ++ l') = total_evals l + total_evals l'.
Proof. induction l; simpl; lia. Qed.
Lemma total_evals_upd_same i f l : (forall d, d_evals (f d) = d_evals d) -> total_evals (upd i f l) = total_evals l.
Proof. intros Hf. revert i; induction l as [|d r IH]; intros [|i]; simpl; rewrite ?Hf, ?IH; reflexivity. Qed.
Lemma total_evals_upd_add i n k l : i < length l -> total_evals (upd i (add_evals n k) l) = total_evals l + n.
Proof. revert i; induction l as [|d r IH]; intros [|i] H; simpl in *; try lia. rewrite IH; lia. Qed.
Lemma total_evals_map f l : (forall d, d_evals (f d) = d_evals d) -> total_evals (map f l) = total_evals l.
Proof. intros Hf. induction l as [|d r IH]; simpl; rewrite ?Hf, ?IH; reflexivity. Qed.

(* ---- counting ---- *)
Lemma count_app p l l' : count p (l ++ l') = count p l + count p l'.
Proof. unfold count. now rewrite filter_app, app_length. Qed.
Lemma count_upd_le p i f l : (forall d, p (f d) = true -> p d = true) -> count p (upd i f l) <= count p l.
Proof.
  intros Hf. unfold count. revert i; induction l as [|d r IH]; intros [|i]; simpl; auto.
  - destruct (p (f d)) eqn:E; [rewrite (Hf d E); simpl; lia|]. destruct (p d); simpl; lia.
  - specialize (IH i). destruct (p d); simpl; lia.
Qed.
Lemma count_map_eq p f l : (forall d, p (f d) = p d) -> count p (map f l) = count p l.
Proof. intros Hf. unfold count. induction l as [|d r IH]; simpl; auto. rewrite Hf. destruct (p d); simpl; now rewrite IH. Qed.

(* ---- ids ---- *)
Lemma ids_from_spec k p l x : In x (ids_from k p l) <-> (k <= x /\ x < k + length l /\ p (nth (x - k) l (root_deme 0)) = true).
Proof.
  revert k; induction l as [|d r IH]; intros k; simpl.
  - split; [tauto|lia].
  - destruct (p d) eqn:E; simpl; rewrite IH; split.
    + intros [<-|(H1 & H2 & H3)]. { rewrite Nat.sub_diag. repeat split; auto; lia. }
      replace (x - k) with (S (x - S k)) by lia. repeat split; auto; lia.
    + intros (H1 & H2 & H3). destruct (Nat.eq_dec k x) as [->|N]; [now left|right].
      replace (x - k) with (S (x - S k)) in H3 by lia. repeat split; auto; lia.
    + intros (H1 & H2 & H3). replace (x - k) with (S (x - S k)) by lia. repeat split; auto; lia.
    + intros (H1 & H2 & H3). destruct (Nat.eq_dec k x) as [->|N].
      { rewrite Nat.sub_diag in H3. congruence. }
      replace (x - k) with (S (x - S k)) in H3 by lia. repeat split; auto; lia.
Qed.
Lemma ids_spec p l x : In x (ids p l) <-> (x < length l /\ p (dnth x l) = true).
Proof. unfold ids, dnth. rewrite ids_from_spec. rewrite Nat.sub_0_r. simpl. split; intros; intuition lia. Qed.
Lemma ids_from_NoDup k p l : NoDup (ids_from k p l).
Proof.
  revert k; induction l as [|d r IH]; intros k; simpl; [constructor|].
  destruct (p d); [|apply IH]. constructor; [|apply IH]. rewrite ids_from_spec. lia.
Qed.
Lemma ids_NoDup p l : NoDup (ids p l).
Proof. apply ids_from_NoDup. Qed.

Lemma level_order_spec H p l x : In x (level_order H p l) <-> (x < length l /\ d_lvl (dnth x l) < H /\ p (dnth x l) = true).
Proof.
  unfold level_order. rewrite in_flat_map. split.
  - intros (lv & Hlv & Hx). apply in_seq in Hlv. apply ids_spec in Hx as (H1 & H2).
    apply andb_prop in H2 as (H2 & H3). apply Nat.eqb_eq in H2. repeat split; auto. lia.
  - intros (H1 & H2 & H3). exists (d_lvl (dnth x l)). split; [apply in_seq; lia|].
    apply ids_spec. split; auto. now rewrite Nat.eqb_refl, H3.
Qed.
Lemma NoDup_app_intro {A} (l1 l2 : list A) : NoDup l1 -> NoDup l2 -> (forall x, In x l1 -> ~ In x l2) -> NoDup (l1 ++ l2).
Proof.
  induction l1 as [|x r IH]; intros H1 H2 Hd; simpl; auto.
  inversion H1; subst. constructor.
  - rewrite in_app_iff. intros [Hin|Hin]; [contradiction|]. apply (Hd x); [now left|assumption].
  - apply IH; auto. intros y Hy. apply Hd. now right.
Qed.
Lemma NoDup_flat_map_disjoint {A B} (f : A -> list B) (l : list A) :
  NoDup l -> (forall a, In a l -> NoDup (f a)) -> (forall a a' x, In a l -> In a' l -> In x (f a) -> In x (f a') -> a = a') -> NoDup (flat_map f l).
Proof.
  induction l as [|a r IH]; intros Hn Hf Hd; simpl; [constructor|].
  inversion Hn as [|? ? Hna Hnr]; subst.
  apply NoDup_app_intro.
  - apply Hf. now left.
  - apply IH; auto; [intros; apply Hf; now right | intros; eapply Hd; eauto; now right].
  - intros x Hx Hin. apply in_flat_map in Hin as (a' & Ha' & Hx').
    assert (a = a') by (eapply Hd; eauto; [now left|now right]). subst. contradiction.
Qed.
Lemma level_order_NoDup H p l : NoDup (level_order H p l).
Proof.
  unfold level_order. apply NoDup_flat_map_disjoint.
  - apply seq_NoDup.
  - intros. apply ids_NoDup.
  - intros a a' x _ _ H1 H2. apply ids_spec in H1 as (_ & H1), H2 as (_ & H2).
    apply andb_prop in H1 as (H1 & _), H2 as (H2 & _). apply Nat.eqb_eq in H1, H2. congruence.
Qed.
