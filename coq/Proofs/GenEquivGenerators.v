(* Proofs/GenEquivGenerators.v — the candidate generators TRANSLATED from the current pyhms/sprout/sprout_generators.py
   (Gen/GenGenerators.v): WHICH demes are asked (the active non-leaf demes, level by level in creation order; the local-method generator
   additionally the just-finished demes of the last-but-one level) and WHAT they offer (BestPerDeme: exactly the deme's current best;
   NBC generators: the clustering of the deme's CURRENT population).  The numbers (bests, clusterings) are oracles indexed by the deme. *)
From Coq Require Import List Bool Arith ZArith Lia.
From HV Require Import Ord ListX Sprout Tree TreeLemmas DriverPrim SproutPrim Driver DriverFacts GenEquivDriver GenEquivStops FilterDict GenGenerators.
Import ListNotations.

Lemma flat_map_map {A B C} (g : B -> list C) (h : A -> B) l : flat_map g (map h l) = flat_map (fun x => g (h x)) l.
Proof. induction l as [|x r IH]; cbn; [reflexivity|now rewrite IH]. Qed.
Lemma map_flat_map {A B C} (f : B -> C) (g : A -> list B) l : map f (flat_map g l) = flat_map (fun x => map f (g x)) l.
Proof. induction l as [|x r IH]; cbn; [reflexivity|now rewrite map_app, IH]. Qed.

Section Gens.
  Variables (cur_best hist_best : nat -> Z) (nbc_cluster : nat -> list Z).

  (* BestPerDeme: one entry per ACTIVE NON-LEAF deme, holding exactly that deme's current best *)
  Theorem BestPerDeme_ok c fuel s :
    answers (gen_BestPerDeme cur_best c fuel) s (map (fun d => (d, [cur_best d])) (active_non_leaves c (demes (ms s)))).
  Proof.
    intros evs. unfold gen_BestPerDeme, returned. dunf. f_equal. f_equal. f_equal.
    unfold active_non_leaves. rewrite flat_map_map, map_flat_map. reflexivity.
  Qed.

  (* the inner loop of the NBC generators: the active demes of one level each add their clustering *)
  Lemma nbc_level c fuel : forall demes_of_level cm s evs,
    forl_ demes_of_level (gen_NBC_Generator_forl2 nbc_cluster c fuel) cm s evs =
    Some (cm ++ map (fun d => (d, nbc_cluster d)) (filter (fun d => d_active (dnth d (demes (ms s)))) demes_of_level), s, evs).
  Proof.
    induction demes_of_level as [|d r IH]; intros cm s evs; cbn [forl_ filter map]; [now rewrite app_nil_r|].
    unfold bind. unfold gen_NBC_Generator_forl2 at 1. dunf. destruct (d_active (dnth d (demes (ms s)))); rewrite IH; [|reflexivity].
    unfold cm_add. cbn [map]. now rewrite <- app_assoc.
  Qed.
  Lemma nbc_levels c fuel : forall levels cm s evs,
    forl_ levels (gen_NBC_Generator_forl1 nbc_cluster c fuel) cm s evs =
    Some (cm ++ flat_map (fun level => map (fun d => (d, nbc_cluster d)) (filter (fun d => d_active (dnth d (demes (ms s)))) level)) levels, s, evs).
  Proof.
    induction levels as [|l r IH]; intros cm s evs; cbn [forl_ flat_map]; [now rewrite app_nil_r|].
    unfold bind. unfold gen_NBC_Generator_forl1 at 1. dunf. rewrite nbc_level, IH. now rewrite <- app_assoc.
  Qed.
  Theorem NBC_Generator_ok c fuel s :
    answers (gen_NBC_Generator nbc_cluster c fuel) s (map (fun d => (d, nbc_cluster d)) (active_non_leaves c (demes (ms s)))).
  Proof.
    intros evs. unfold gen_NBC_Generator, returned. dunf. rewrite nbc_levels. cbn [app]. f_equal. f_equal. f_equal.
    unfold active_non_leaves. rewrite flat_map_map, map_flat_map. reflexivity.
  Qed.

  (* every parent a generator names is an active deme that is not a leaf, and no parent is named twice *)
  Lemma active_non_leaves_in c ds d : In d (active_non_leaves c ds) -> d < length ds /\ d_active (dnth d ds) = true /\ S (d_lvl (dnth d ds)) < height c.
  Proof.
    rewrite active_non_leaves_spec, level_order_spec. intros (H1 & H2 & H3). repeat split; auto. lia.
  Qed.
  Theorem generator_parents (val : nat -> list Z) c ds pk :
    In pk (map (fun d => (d, val d)) (active_non_leaves c ds)) ->
    fst pk < length ds /\ d_active (dnth (fst pk) ds) = true /\ S (d_lvl (dnth (fst pk) ds)) < height c.
  Proof. intros H. apply in_map_iff in H as (d & <- & Hd). now apply active_non_leaves_in. Qed.
  Theorem generator_parents_distinct (val : nat -> list Z) c ds : NoDup (cm_keys (map (fun d => (d, val d)) (active_non_leaves c ds))).
  Proof.
    unfold cm_keys. rewrite map_map. cbn [fst]. rewrite map_id. rewrite active_non_leaves_spec. apply level_order_NoDup.
  Qed.
End Gens.

(* ---------------------------------------------------------------- NBCGeneratorWithLocalMethod *)
Section LocalGen.
  Variables (hist_best : nat -> Z) (nbc_cluster : nat -> list Z).
  Definition just_finished (m : st) (d : nat) : bool :=
    negb (d_active (dnth d (demes m))) && Nat.eqb (d_started (dnth d (demes m)) + S (d_meta (dnth d (demes m)))) (mcount m).
  Lemma local_level c fuel : forall ds_level cm s evs,
    forl_ ds_level (gen_NBCGeneratorWithLocalMethod_forl3 hist_best c fuel) cm s evs =
    Some (cm ++ map (fun d => (d, [hist_best d])) (filter (just_finished (ms s)) ds_level), s, evs).
  Proof.
    induction ds_level as [|d r IH]; intros cm s evs; cbn [forl_ filter map]; [now rewrite app_nil_r|].
    unfold bind. unfold gen_NBCGeneratorWithLocalMethod_forl3 at 1. dunf. unfold just_finished at 1.
    rewrite ?(Nat.eqb_sym (mcount (ms s)) _).   (* `a == b` or `b == a` *)
    (* `not active and a == b`, or a guard `if active: continue` followed by `if a == b` *)
    destruct (d_active (dnth d (demes (ms s)))); cbn [negb andb]; [now rewrite IH|].
    rewrite ?(Nat.eqb_sym (mcount (ms s)) _). destruct (Nat.eqb _ _); rewrite IH; [|reflexivity]. unfold cm_add. cbn [map]. now rewrite <- app_assoc.
  Qed.
  Lemma nbc_level' c fuel : forall demes_of_level cm s evs,
    forl_ demes_of_level (gen_NBCGeneratorWithLocalMethod_forl2 nbc_cluster c fuel) cm s evs =
    Some (cm ++ map (fun d => (d, nbc_cluster d)) (filter (fun d => d_active (dnth d (demes (ms s)))) demes_of_level), s, evs).
  Proof.
    induction demes_of_level as [|d r IH]; intros cm s evs; cbn [forl_ filter map]; [now rewrite app_nil_r|].
    unfold bind. unfold gen_NBCGeneratorWithLocalMethod_forl2 at 1. dunf. destruct (d_active (dnth d (demes (ms s)))); rewrite IH; [|reflexivity].
    unfold cm_add. cbn [map]. now rewrite <- app_assoc.
  Qed.
  Lemma nbc_levels' c fuel : forall levels cm s evs,
    forl_ levels (gen_NBCGeneratorWithLocalMethod_forl1 nbc_cluster c fuel) cm s evs =
    Some (cm ++ flat_map (fun level => map (fun d => (d, nbc_cluster d)) (filter (fun d => d_active (dnth d (demes (ms s)))) level)) levels, s, evs).
  Proof.
    induction levels as [|l r IH]; intros cm s evs; cbn [forl_ flat_map]; [now rewrite app_nil_r|].
    unfold bind. unfold gen_NBCGeneratorWithLocalMethod_forl1 at 1. dunf. rewrite nbc_level', IH. now rewrite <- app_assoc.
  Qed.
  (* the active demes above the last-but-one level offer the clustering of their current population; of the last-but-one level only
     the demes that JUST finished (inactive, and their last metaepoch was the one before this one) offer their best individual *)
  Theorem NBCGeneratorWithLocalMethod_ok c fuel s :
    answers (gen_NBCGeneratorWithLocalMethod hist_best nbc_cluster c fuel) s
            (map (fun d => (d, nbc_cluster d)) (flat_map (fun l => filter (fun d => d_active (dnth d (demes (ms s)))) (level_ids (demes (ms s)) l)) (seq 0 (height c - 2)))
             ++ map (fun d => (d, [hist_best d])) (filter (just_finished (ms s)) (level_ids (demes (ms s)) (height c - 2)))).
  Proof.
    intros evs. unfold gen_NBCGeneratorWithLocalMethod, returned. dunf. rewrite nbc_levels'. cbn [app]. rewrite local_level.
    f_equal. f_equal. f_equal. f_equal. rewrite flat_map_map, map_flat_map. reflexivity.
  Qed.
End LocalGen.
