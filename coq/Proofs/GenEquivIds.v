(* Proofs/GenEquivIds.v — DemeTree._next_child_id, TRANSLATED from the current pyhms/tree.py (Gen/GenDriver.gen_next_child_id; ids as paths
   of numbers: "root" = [], "3" = [3], "3/7" = [3; 7]), computes exactly the id `did` that the C07 theorems (unique ids, the id names the
   level and the parent) are about; and an id, once given, never changes when further demes are appended. *)
From Coq Require Import List Bool Arith Lia.
From HV Require Import Ord ListX Sprout Tree TreeLemmas TreeInv TreeRun TreeIds DriverPrim GenDriver.
Import ListNotations.

Lemma ids_from_length p : forall l i, length (ids_from i p l) = length (filter p l).
Proof. induction l as [|d r IH]; intros i; cbn; [reflexivity|]. destruct (p d); cbn; now rewrite IH. Qed.
Lemma level_ids_count ds l : length (level_ids ds l) = count (fun d => Nat.eqb (d_lvl d) l) ds.
Proof. unfold level_ids, ids, count. apply ids_from_length. Qed.
Lemma dnth_app_l (ds : list deme) x q : q < length ds -> dnth q (ds ++ [x]) = dnth q ds.
Proof. intros H. unfold dnth. now rewrite app_nth1. Qed.
Lemma dnth_app_last (ds : list deme) x : dnth (length ds) (ds ++ [x]) = x.
Proof. unfold dnth. now rewrite app_nth2, Nat.sub_diag by lia. Qed.
Lemma firstn_app_l {A} (l r : list A) q : q <= length l -> firstn q (l ++ r) = firstn q l.
Proof. intros H. rewrite firstn_app. replace (q - length l) with 0 by lia. cbn. now rewrite app_nil_r. Qed.

Section Step.
  Variables (c : cfg) (s : st).
  Hypothesis W : WFT c s.
  Let ds := demes s.
  (* did unfolds one step: parent's id ++ [how many demes were on the level before] *)
  Lemma did_fuel_mono : forall fuel q, q < length ds -> d_lvl (dnth q ds) < fuel -> did_fuel fuel ds q = did_fuel (S fuel) ds q.
  Proof.
    destruct W as (_ & Wf).
    induction fuel as [|g IH]; intros q Hq Hf; [lia|]. simpl. pose proof (Wf q Hq) as Wq. cbv zeta in Wq. fold ds in Wq. destruct Wq as (_ & _ & Wp).
    destruct (d_par (dnth q ds)) as [r|] eqn:Er; [|reflexivity]. destruct Wp as (_ & Hr & Elq & _). f_equal.
    rewrite (IH r) by lia. simpl. reflexivity.
  Qed.
  Lemma did_step i p : i < length ds -> d_par (dnth i ds) = Some p -> did ds i = did ds p ++ [lvl_index ds i].
  Proof.
    intros Hi P. destruct W as (_ & Wf). pose proof (Wf i Hi) as Wi. cbv zeta in Wi. fold ds in Wi. rewrite P in Wi. destruct Wi as (_ & _ & _ & Hp & El & _).
    pose proof (lvl_le_idx' c s W i Hi) as Li. fold ds in Li. unfold did. destruct (length ds) as [|f] eqn:Ln; [lia|]. simpl. rewrite P.
    f_equal. apply did_fuel_mono; lia.
  Qed.
End Step.

(* the id the code computes for the child it is about to create is the child's `did` in the tree that contains it *)
Theorem next_child_id_is_did c s p ch :
  WFT c s -> demes s <> [] -> forall ds, demes s = ds ++ [ch] -> d_par ch = Some p ->
  gen_next_child_id c ds p (did (demes s) p) = Some (did (demes s) (length ds)).
Proof.
  intros W _ ds E P. pose proof W as (_ & Wf). assert (Hi : length ds < length (demes s)) by (rewrite E, app_length; cbn; lia).
  pose proof (Wf _ Hi) as Wi. cbv zeta in Wi. rewrite E, dnth_app_last, P in Wi. destruct Wi as (Hl & _ & _ & Hp & El & _).
  rewrite (did_step c s W (length ds) p Hi) by (now rewrite E, dnth_app_last).
  unfold gen_next_child_id. rewrite <- (dnth_app_l ds ch p Hp).
  (* whichever way the level guard, the sum and the root test are written in the source *)
  assert (E1 : d_lvl (dnth p (ds ++ [ch])) + 1 = d_lvl ch) by lia. assert (E2 : 1 + d_lvl (dnth p (ds ++ [ch])) = d_lvl ch) by lia.
  assert (E3 : S (d_lvl (dnth p (ds ++ [ch]))) = d_lvl ch) by lia.
  repeat match goal with
         | |- context [Nat.leb ?a ?b] => destruct (Nat.leb_spec a b); try lia
         | |- context [Nat.ltb ?a ?b] => destruct (Nat.ltb_spec a b); try lia
         | |- context [Nat.eqb ?a ?b] => destruct (Nat.eqb_spec a b); try lia
         end.
  rewrite ?E1, ?E2, ?E3, !level_ids_count. unfold lvl_index. rewrite E, dnth_app_last, firstn_app_l, firstn_all by lia.
  unfold is_root. destruct (did (ds ++ [ch]) p); reflexivity.
Qed.

(* ids are given once: appending a deme does not change the id of any deme that was there *)
Theorem did_stable c s ch : WFT c s -> forall q, q < length (demes s) -> did (demes s ++ [ch]) q = did (demes s) q.
Proof.
  intros W q Hq. pose proof (lvl_le_idx' c s W q Hq) as Lq. unfold did. rewrite app_length. cbn [length]. rewrite Nat.add_1_r.
  assert (G : forall fuel q, q < length (demes s) -> did_fuel fuel (demes s ++ [ch]) q = did_fuel fuel (demes s) q).
  { destruct W as (_ & Wf). induction fuel as [|f IH]; intros r Hr; [reflexivity|]. cbn [did_fuel]. rewrite dnth_app_l by exact Hr.
    pose proof (Wf r Hr) as Wr. cbv zeta in Wr. destruct Wr as (_ & _ & Wp). destruct (d_par (dnth r (demes s))) as [p|]; [|reflexivity].
    destruct Wp as (_ & Hp & _). rewrite IH by lia. f_equal. f_equal. unfold lvl_index. rewrite dnth_app_l by exact Hr. now rewrite firstn_app_l by lia. }
  rewrite G by exact Hq. symmetry. apply (did_fuel_mono c s W); [exact Hq|lia].
Qed.
