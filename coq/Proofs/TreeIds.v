(* Proofs/TreeIds.v — deme ids are unique (C07).  _next_child_id names a child after its parent's id and the number of demes already
   on the child's level: "root", "3", "3/7".  As a path of numbers: id(child) = id(parent) ++ [demes already on that level]. *)
From Coq Require Import List Bool Arith ZArith Lia.
From HV Require Import Ord ListX Sprout Tree TreeLemmas TreeInv TreeRun.
Import ListNotations.

Lemma count_firstn_lt (p : deme -> bool) (l : list deme) : forall i j, i < j -> j <= length l -> p (dnth i l) = true ->
  count p (firstn i l) < count p (firstn j l).
Proof.
  induction l as [|x l IH]; intros i j Hij Hj Hp; simpl in Hj; [lia|]. destruct j as [|j]; [lia|]. destruct i as [|i].
  - unfold dnth in Hp. simpl in Hp. unfold count. simpl. rewrite Hp. simpl. lia.
  - unfold count in *. simpl. unfold dnth in Hp. simpl in Hp. specialize (IH i j ltac:(lia) ltac:(lia) Hp). destruct (p x); simpl; lia.
Qed.

Section Ids.
  Variables (c : cfg) (s : st).
  Hypothesis W : WFT c s.
  Let ds := demes s.

  Lemma lvl_le_idx' : forall i, i < length ds -> d_lvl (dnth i ds) <= i.
  Proof.
    intros i. induction i as [i IH] using lt_wf_ind. intros Hi. destruct W as (_ & Wf). specialize (Wf i Hi). cbv zeta in Wf.
    fold ds in Wf. destruct Wf as (_ & _ & Wp). destruct (d_par (dnth i ds)) as [p|]; [|lia].
    destruct Wp as (_ & Hp & -> & _). specialize (IH p Hp ltac:(lia)). lia.
  Qed.
  Lemma did_fuel_length : forall fuel i, i < length ds -> d_lvl (dnth i ds) < fuel -> length (did_fuel fuel ds i) = d_lvl (dnth i ds).
  Proof.
    induction fuel as [|f IH]; intros i Hi Hf; [lia|]. simpl. destruct W as (_ & Wf). pose proof (Wf i Hi) as Wi. cbv zeta in Wi. fold ds in Wi.
    destruct Wi as (_ & _ & Wp). destruct (d_par (dnth i ds)) as [p|]; [|simpl; lia].
    destruct Wp as (_ & Hp & El & _). rewrite app_length, IH by lia. simpl. lia.
  Qed.
  Lemma did_length i : i < length ds -> length (did ds i) = d_lvl (dnth i ds).
  Proof. intros Hi. apply did_fuel_length; [exact Hi|]. pose proof (lvl_le_idx' i Hi). lia. Qed.

  (* two demes with the same id are the same deme *)
  Theorem ids_unique i j : i < length ds -> j < length ds -> did ds i = did ds j -> i = j.
  Proof.
    intros Hi Hj E. assert (d_lvl (dnth i ds) = d_lvl (dnth j ds)) as El by (rewrite <- !did_length by assumption; now rewrite E).
    destruct W as (_ & Wf). pose proof (Wf i Hi) as Wi. pose proof (Wf j Hj) as Wj. cbv zeta in Wi, Wj. fold ds in Wi, Wj.
    destruct Wi as (_ & _ & Pi), Wj as (_ & _ & Pj). unfold did in E.
    destruct (length ds) as [|f] eqn:Ln; [lia|]. simpl in E.
    destruct (d_par (dnth i ds)) as [pi|] eqn:Ei, (d_par (dnth j ds)) as [pj|] eqn:Ej.
    - apply app_inj_tail in E as (_ & E). destruct (Nat.lt_trichotomy i j) as [L|[L|L]]; [|exact L|]; exfalso.
      + unfold lvl_index in E. rewrite <- El in E.
        pose proof (count_firstn_lt (fun d => Nat.eqb (d_lvl d) (d_lvl (dnth i ds))) ds i j L ltac:(lia) ltac:(apply Nat.eqb_refl)). lia.
      + unfold lvl_index in E. rewrite El in E.
        pose proof (count_firstn_lt (fun d => Nat.eqb (d_lvl d) (d_lvl (dnth j ds))) ds j i L ltac:(lia) ltac:(apply Nat.eqb_refl)). lia.
    - destruct Pi as (_ & _ & X & _). destruct Pj as (_ & Y). exfalso. rewrite X, Y in El. discriminate.
    - destruct Pj as (_ & _ & X & _). destruct Pi as (_ & Y). exfalso. rewrite X, Y in El. discriminate.
    - destruct Pi as (-> & _), Pj as (-> & _). reflexivity.
  Qed.
  (* the id says on which level the deme lives and who its parent is *)
  Theorem id_names_level_and_parent i p : i < length ds -> d_par (dnth i ds) = Some p ->
    length (did ds i) = d_lvl (dnth i ds) /\ exists k, did ds i = did ds p ++ [k].
  Proof.
    intros Hi P. split; [now apply did_length|].
    destruct W as (_ & Wf). pose proof (Wf i Hi) as Wi. cbv zeta in Wi. fold ds in Wi. rewrite P in Wi. destruct Wi as (_ & _ & _ & Hp & El & _).
    assert (forall fuel q, q < length ds -> d_lvl (dnth q ds) < fuel -> did_fuel fuel ds q = did_fuel (S fuel) ds q) as Mono.
    { induction fuel as [|g IH]; intros q Hq Hf; [lia|]. simpl. pose proof (Wf q Hq) as Wq. cbv zeta in Wq. fold ds in Wq. destruct Wq as (_ & _ & Wp).
      destruct (d_par (dnth q ds)) as [r|] eqn:Er; [|reflexivity]. destruct Wp as (_ & Hr & Elq & _). f_equal.
      rewrite (IH r) by lia. simpl. reflexivity. }
    pose proof (lvl_le_idx' i Hi) as Li. unfold did. destruct (length ds) as [|f] eqn:Ln; [lia|]. simpl. rewrite P.
    exists (lvl_index ds i). f_equal. apply Mono; lia.
  Qed.
End Ids.

Theorem reachable_ids_unique c n0 s i j : 1 <= height c -> reach c n0 s -> i < length (demes s) -> j < length (demes s) -> did (demes s) i = did (demes s) j -> i = j.
Proof. intros H R. destruct (reach_INV c n0 s H R) as (_ & _ & W & _). exact (ids_unique c s W i j). Qed.
