(* Props/C02.v — stored individuals carry the true fitness of their genome; history is immutable.  History machine, every
   accepted event stream (any number of demes, generations, evaluations). *)
From Coq Require Import ZArith Bool List.
From HV Require Import Ord Select SelectFacts Hist HistFacts Pop PopFacts.
From HV Require Import GenPop GenEquivPop.
From HV Require Import RealTraces.
From HV Require Import Ctor GenCtor GenEquivCtor.
From HV Require GenDirection GenEquivDirection F64 WMonad.
Import ListNotations.

(* every stored individual (and every seed) names an evaluation in the log that was made for exactly its genome and returned
   exactly its fitness — the value the level's wrapper stack returned (C16: the objective's value, or the sentinel) *)
Theorem C02_stored_fitness_is_true s d hd g t i : hreach s -> nth_error (hdemes s) d = Some hd -> In (g, t) (hgens hd) -> In i g ->
  exists d', nth_error (evlog s) (ist i) = Some (d', ig i, ifit i).
Proof. exact (stored_fitness_is_true s d hd g t i). Qed.
Print Assumptions C02_stored_fitness_is_true.
Theorem C02_seed_fitness_is_true s d hd sd : hreach s -> nth_error (hdemes s) d = Some hd -> hseed hd = Some sd ->
  exists d', nth_error (evlog s) (ist sd) = Some (d', ig sd, ifit sd).
Proof. exact (seed_fitness_is_true s d hd sd). Qed.
Print Assumptions C02_seed_fitness_is_true.

(* once recorded, a generation never changes: over ANY number of further events every deme's history has its old history as a
   prefix (and its seed and parent are unchanged) *)
Theorem C02_history_is_append_only evs s s' : hrun s evs = Some s' -> forall d hd, nth_error (hdemes s) d = Some hd ->
  exists hd', nth_error (hdemes s') d = Some hd' /\ (exists more, hgens hd' = hgens hd ++ more) /\ hseed hd' = hseed hd /\ hpar hd' = hpar hd /\ hfixed hd' = hfixed hd.
Proof. exact (hist_prefix_run evs s s'). Qed.
Print Assumptions C02_history_is_append_only.
(* the evaluation log itself only grows *)
Theorem C02_log_is_append_only s e s' : hstep s e = Some s' -> exists more, evlog s' = evlog s ++ more.
Proof.
  destruct e as [f p st|d x v|d srcs]; simpl.
  - destruct p as [[[p gi] pos]|]; [|intros [= <-]; exists []; now rewrite app_nil_r].
    destruct (nth_error (hdemes s) p); [|discriminate]. destruct (st && _); [discriminate|]. destruct (nth_error (hgens h) gi) as [[g t]|]; [|discriminate].
    destruct (nth_error g pos); [|discriminate]. intros [= <-]. exists []. simpl. now rewrite app_nil_r.
  - destruct (nth_error (hdemes s) d); [|discriminate]. intros [= <-]. eexists. reflexivity.
  - destruct (nth_error (hdemes s) d); [|discriminate]. destruct (build s d h srcs); [|discriminate]. destruct (hfixed h && _); [discriminate|].
    intros [= <-]. exists []. simpl. now rewrite app_nil_r.
Qed.
Print Assumptions C02_log_is_append_only.

(* the mechanisms that keep fitness values true inside the engines (pyhms/core/population.py, de.py), for ANY objective f:
   update_genome invalidates exactly the rows whose genome changed; evaluate asks the problem exactly for the invalidated rows and
   afterwards every row carries f of its own genome; a DE / SHADE trial keeps its parent's fitness only for an identical genome *)
Theorem C02_update_then_evaluate_true {G F} (geq : G -> G -> bool) (f : G -> F) (p : list (@row G F)) new :
  (forall a b, geq a b = true <-> a = b) -> Forall (well_valued f) p -> Forall (fun r => snd r = Some (f (fst r))) (evaluate f (update_genome geq p new)).
Proof. intros _. exact (mutate_then_evaluate_true geq f p new). Qed.
Print Assumptions C02_update_then_evaluate_true.
Theorem C02_de_trial_keeps_only_identical {G F} (geq : G -> G -> bool) (f : G -> F) (parents : list (@row G F)) new :
  (forall a b, geq a b = true <-> a = b) -> Forall (well_valued f) parents -> Forall (well_valued f) (de_trial geq parents new).
Proof. intros E. exact (de_trial_valued geq E f parents new). Qed.
Print Assumptions C02_de_trial_keeps_only_identical.
Theorem C02_unchanged_rows_not_reevaluated {G F} (f : G -> F) (r : @row G F) v : snd r = Some v -> eval_row f r = r.
Proof. exact (unchanged_rows_not_reevaluated f r v). Qed.

(* non-vacuity: a deme evaluates two genomes, records them, breeds one new individual and carries one over *)
Example C02_example : exists s, hrun hinit [HBegin true None true; HEval 0 1 50; HEval 0 2 30; HGen 0 [Fresh 0; Fresh 1]; HEval 0 3 10; HGen 0 [Carried 1; Fresh 0]] = Some s /\
  map (fun gt => map ifit (fst gt)) (hgens (nth 0 (hdemes s) {| hgens := []; hpend := []; hfixed := false; hseed := None; hpar := None |})) = [[50; 30]; [30; 10]]%Z.
Proof. vm_compute. eexists. split; reflexivity. Qed.

(* non-vacuity on real data: recorded histories accepted by the history machine, invariant HI holding (Proofs/RealTraces.v) *)
Definition C02_real_histories_accepted := (real1_history_accepted, real2_history_accepted, real3_history_accepted).

(* ---------------------------------------------------------------- the invalidation code TRANSLATED from the current
   pyhms/core/population.py and de.py (Gen/GenPop.v): on rows (genome, fitness-or-NaN) it IS the population model of the theorems above —
   a trial row keeps its parent's fitness exactly when its genome is IDENTICAL (geq = exact array equality), update_genome drops the
   fitness of exactly the rows whose genome changed *)
Theorem C02_translated_DE_keep_rule {G} (geq : G -> G -> bool) (p : popo (G:=G)) new : length (pgo p) = length (pfo p) ->
  combine new (gen_BinaryMutation_new_fitness geq p new) = de_trial geq (rows_o p) new /\
  combine new (gen_BinaryMutationWithDither_new_fitness geq p new) = de_trial geq (rows_o p) new /\
  combine new (gen_CurrentToPBestMutation_new_fitness geq p new) = de_trial geq (rows_o p) new /\
  combine new (gen_Crossover_new_fitness geq p new) = de_trial geq (rows_o p) new.
Proof. intros L. exact (conj (BinaryMutation_keep geq p new L) (conj (BinaryMutationWithDither_keep geq p new L) (conj (CurrentToPBestMutation_keep geq p new L) (Crossover_keep geq p new L)))). Qed.
Print Assumptions C02_translated_DE_keep_rule.
Theorem C02_translated_update_genome {G} (geq : G -> G -> bool) (p : popo (G:=G)) new : length (pgo p) = length (pfo p) -> length new = length (pgo p) ->
  rows_o (gen_update_genome geq p new) = update_genome geq (rows_o p) new.
Proof. exact (update_genome_rows geq p new). Qed.
Print Assumptions C02_translated_update_genome.

(* Population.evaluate and the SEA-family operators (GaussianMutation, UniformMutation, ArithmeticCrossover: copy; update_genome(new
   genomes); evaluate()), translated: after a mutation every row carries the objective's value AT ITS OWN genome, given that the rows handed
   in did (an unchanged row keeps genome and fitness and is not evaluated again; a changed row is re-evaluated) *)
Theorem C02_translated_evaluate {G} (geq : G -> G -> bool) (f : G -> Z) (p : popo (G:=G)) : length (pgo p) = length (pfo p) ->
  rows_o (GenPop.gen_evaluate f p) = evaluate f (rows_o p) /\ gen_evaluate_requests p = requests (rows_o p).
Proof. intros L. exact (conj (evaluate_rows f p L) (evaluate_requests_eq p)). Qed.
Print Assumptions C02_translated_evaluate.
Theorem C02_translated_mutation_keeps_fitness_true {G} (geq : G -> G -> bool) (f : G -> Z) ev (p : popo (G:=G)) new :
  length (pgo p) = length (pfo p) -> length new = length (pgo p) -> Forall (well_valued f) (rows_o p) ->
  Forall (fun r => snd r = Some (f (fst r))) (rows_o (gen_GaussianMutation_call geq f ev p new)) /\
  Forall (fun r => snd r = Some (f (fst r))) (rows_o (gen_UniformMutation_call geq f ev p new)) /\
  Forall (well_valued f) (rows_o (gen_ArithmeticCrossover_call geq f ev p new)).
Proof.
  intros L1 L2 W. rewrite GaussianMutation_rows, UniformMutation_rows, ArithmeticCrossover_rows by assumption.
  split; [now apply mutate_then_evaluate_true|]. split; [now apply mutate_then_evaluate_true|].
  destruct ev; [|now apply update_genome_valued].
  pose proof (mutate_then_evaluate_true geq f (rows_o p) new W) as H. clear - H. induction H as [|r l Hr Hl IH]; constructor; [|exact IH].
  unfold well_valued. now rewrite Hr.
Qed.
Print Assumptions C02_translated_mutation_keeps_fitness_true.

(* Population.from_individuals / to_individuals (translated): an individual's genome and fitness stay one row, in order, both ways *)
Theorem C02_translated_individuals_round_trip {G} (inds : list (G * Z)) : gen_to_individuals (gen_from_individuals inds) = inds.
Proof. rewrite to_individuals_rows. exact (proj1 (from_individuals_rows inds)). Qed.
Print Assumptions C02_translated_individuals_round_trip.

(* ---------------------------------------------------------------- the same for the TRANSLATED constructors.
   Gen/GenCtor.v is regenerated on every check from AbstractDeme.__init__, the __init__ of EADeme, DEDeme, SHADEDeme, CMADeme, LocalDeme,
   LHSDeme, SobolDeme (+ the run() the two samplers call), Individual.__init__ / evaluate / evaluate_population / create_population,
   init_from_config and DemeTree.__init__ (hv/translate/ctor_py.py); `ctor_ok lvl started local o pop`: the constructor built the deme
   `fresh_deme lvl started n` the machine's sprouting step assumes, its history holding exactly the start population pop. *)
(* every individual a constructor stores in the history carries a fitness (computed by evaluate(): only where none was present) *)
Theorem C02_translated_ctor_population_evaluated lvl started seed pop_size : 1 <= pop_size ->
  (exists p, start_population (gen_EADeme_init pop_size (gen_init_args lvl started seed)) = Some p /\ forallb s_fit p = true) /\
  (exists p, start_population (gen_DEDeme_init pop_size (gen_init_args lvl started seed)) = Some p /\ forallb s_fit p = true) /\
  (exists p, start_population (gen_SHADEDeme_init pop_size (gen_init_args lvl started seed)) = Some p /\ forallb s_fit p = true) /\
  (exists p, start_population (gen_CMADeme_init pop_size (gen_init_args lvl started seed)) = Some p /\ forallb s_fit p = true) /\
  (exists p, start_population (gen_LHSDeme_init pop_size (gen_init_args lvl started seed)) = Some p /\ forallb s_fit p = true) /\
  (exists p, start_population (gen_SobolDeme_init pop_size (gen_init_args lvl started seed)) = Some p /\ forallb s_fit p = true) /\
  (exists p, start_population (gen_LocalDeme_init (gen_init_args lvl started seed)) = Some p /\ forallb s_fit p = true).
Proof.
  intros H. repeat split.
  - destruct (EADeme_ctor_ok lvl started seed pop_size H) as (_ & A & B). eauto.
  - destruct (DEDeme_ctor_ok lvl started seed pop_size H) as (_ & A & B). eauto.
  - destruct (SHADEDeme_ctor_ok lvl started seed pop_size H) as (_ & A & B). eauto.
  - destruct (CMADeme_ctor_ok lvl started seed pop_size) as (_ & A & B). eauto.
  - destruct (LHSDeme_ctor_ok lvl started seed pop_size) as (_ & A & B). eauto.
  - destruct (SobolDeme_ctor_ok lvl started seed pop_size) as (_ & A & B). eauto.
  - destruct (LocalDeme_ctor_ok lvl started seed) as (_ & A & B). eauto.
Qed.
Print Assumptions C02_translated_ctor_population_evaluated.

(* local-search iterates (LocalDeme._history_callback, translated): a COPY of the iterate is stored, and when scipy reports for it the value of
   the function it was handed (contract X5, measured on every trace) the stored fitness is the objective's own value there, in both directions *)
Theorem C02_translated_local_iterate {G} mx (f : G -> WMonad.F) (x : G) :
  GenDirection.gen_local_recorded mx x (GenDirection.gen_local_objective mx f x) = (x, f x).
Proof. exact (GenEquivDirection.local_iterate_recorded_with_its_own_fitness mx f x). Qed.
Print Assumptions C02_translated_local_iterate.
