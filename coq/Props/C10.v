(* Props/C10.v — sprout candidates come from the right populations; filters keep the best.  Pure theorems: ALL candidate maps,
   occupancies, limits, tie patterns, both directions. *)
From Coq Require Import ZArith List Bool Arith Permutation.
From HV Require Import Ord ListX Sprout SproutFacts Select SelectFacts FilterFacts.
From HV Require Import Tree DriverPrim SproutPrim GenEquivStops GenLevelLimit GenDemeLimit FilterDict GenEquivLevelLimit GenEquivDemeLimit Driver GenGenerators GenEquivGenerators GenFar GenEquivFar GenMechanism GenEquivMechanism Far.
From HV Require GenOrder GenEquivOrder F64 WMonad.
Import ListNotations.

(* BestPerDeme: exactly the (first) best of the deme's current population *)
Theorem C10_best_per_deme mx pop b : best_of mx pop = Some b -> In b pop /\ forall x, In x pop -> better mx x b = false.
Proof. exact (best_per_deme_spec mx pop b). Qed.
Print Assumptions C10_best_per_deme.

(* filters only ever remove candidates: LevelLimit, and any chain of verdict-driven filters (FarEnough, NBC_FarEnough,
   SkipSameSprout, user-written removing filters) in any order *)
Theorem C10_level_limit_only_removes mx L lvl_of act c p ks :
  In (p, ks) (level_limit mx L lvl_of act c) -> exists ks0, In (p, ks0) c /\ incl ks ks0.
Proof. exact (level_limit_incl mx L lvl_of act c p ks). Qed.
Print Assumptions C10_level_limit_only_removes.
Theorem C10_chain_only_removes chain c p ks : In (p, ks) (mask_chain c chain) -> exists ks0, In (p, ks0) c /\ incl ks ks0.
Proof. exact (filters_only_remove chain c p ks). Qed.
Print Assumptions C10_chain_only_removes.

(* DemeLimit: exactly min(limit, available); the dropped candidates are never strictly better than a kept one *)
Theorem C10_deme_limit mx limit ks :
  length (deme_limit mx limit ks) = Nat.min limit (length ks) /\
  exists dropped, Permutation ks (deme_limit mx limit ks ++ dropped) /\
                  forall a d, In a (deme_limit mx limit ks) -> In d dropped -> better mx d a = false.
Proof. exact (deme_limit_spec mx limit ks). Qed.
Print Assumptions C10_deme_limit.

(* LevelLimit: what survives on a level is one cut applied to the level's candidates; no dropped candidate is strictly
   better than a kept one; with pairwise distinct fitness values exactly the free slots are filled *)
Theorem C10_level_limit_best mx cut k k' : keep_under mx cut k = true -> keep_under mx cut k' = false -> better mx k' k = false.
Proof. exact (level_limit_best mx cut k k'). Qed.
Print Assumptions C10_level_limit_best.
Theorem C10_level_limit_is_one_cut mx L lvl_of act c l :
  level_keys lvl_of l (level_limit mx L lvl_of act c)
  = filter (keep_under mx (level_cut mx L (act (S l)) (level_keys lvl_of l c))) (level_keys lvl_of l c).
Proof. exact (level_keys_level_limit mx L lvl_of act c l). Qed.
Print Assumptions C10_level_limit_is_one_cut.
Theorem C10_level_limit_fills mx L lvl_of act c l :
  act (S l) <= L -> NoDup (map (good mx) (level_keys lvl_of l c)) ->
  length (level_keys lvl_of l (level_limit mx L lvl_of act c)) = Nat.min (L - act (S l)) (length (level_keys lvl_of l c)).
Proof. exact (level_limit_fills mx L lvl_of act c l). Qed.
Print Assumptions C10_level_limit_fills.

(* SkipSameSprout, for any closeness verdict (np.isclose on all coordinates): sound and complete *)
Theorem C10_skip_same_sound {C S} (close : C -> S -> bool) seeds own cands c s : incl own seeds -> own <> [] ->
  In c (skip_same close (negb (Nat.eqb (length own) 0)) seeds cands) -> In s own -> close c s = false.
Proof. exact (skip_same_sound close seeds own cands c s). Qed.
Print Assumptions C10_skip_same_sound.
Theorem C10_skip_same_complete {C S} (close : C -> S -> bool) hc seeds cands c :
  In c cands -> (forall s, In s seeds -> close c s = false) -> In c (skip_same close hc seeds cands).
Proof. exact (skip_same_complete close hc seeds cands c). Qed.
Print Assumptions C10_skip_same_complete.

Example C10_example :
  deme_limit true 2 [3; 9; 5; 9]%Z = [9; 9]%Z /\ deme_limit false 2 [3; 9; 5; 9]%Z = [3; 5]%Z /\
  level_limit true 3 (fun _ => 0) (fun _ => 1) [(0, [3; 9]%Z); (1, [5; 9; 1]%Z)] = [(0, [9]%Z); (1, [9]%Z)].
Proof. vm_compute. repeat split. Qed.

(* ---------------------------------------------------------------- DemeLimit and LevelLimit TRANSLATED from the current
   pyhms/sprout/sprout_filters.py (Gen/GenFilters.v) are the models the theorems above are about *)
Theorem C10_translated_DemeLimit c fuel limit cm s : NoDup (cm_keys cm) ->
  answers (gen_DemeLimit c fuel limit cm) s (deme_limit_cmap (maximize c) limit cm).
Proof. exact (DemeLimit_ok c fuel limit cm s). Qed.
Print Assumptions C10_translated_DemeLimit.
Theorem C10_translated_LevelLimit c fuel L cm s :
  NoDup (cm_keys cm) -> (forall pk, In pk cm -> S (lvl_at (demes (ms s)) (fst pk)) < height c) ->
  answers (gen_LevelLimit c fuel L cm) s (level_limit (maximize c) L (lvl_at (demes (ms s))) (active_at (demes (ms s))) cm).
Proof. exact (LevelLimit_ok c fuel L cm s). Qed.
Print Assumptions C10_translated_LevelLimit.

(* ---------------------------------------------------------------- the candidate generators TRANSLATED from the current
   pyhms/sprout/sprout_generators.py (Gen/GenGenerators.v): candidates come only from the CURRENT populations of ACTIVE NON-LEAF demes
   (the local-method generator additionally offers the best individual of a just-finished deme of the last-but-one level), BestPerDeme
   proposes exactly the deme's current best, no parent is named twice *)
Theorem C10_translated_BestPerDeme (cur_best : nat -> Z) c fuel s :
  answers (gen_BestPerDeme cur_best c fuel) s (map (fun d => (d, [cur_best d])) (active_non_leaves c (demes (ms s)))).
Proof. exact (BestPerDeme_ok cur_best c fuel s). Qed.
Print Assumptions C10_translated_BestPerDeme.
Theorem C10_translated_NBC_Generator (nbc_cluster : nat -> list Z) c fuel s :
  answers (gen_NBC_Generator nbc_cluster c fuel) s (map (fun d => (d, nbc_cluster d)) (active_non_leaves c (demes (ms s)))).
Proof. exact (NBC_Generator_ok nbc_cluster c fuel s). Qed.
Print Assumptions C10_translated_NBC_Generator.
Theorem C10_translated_NBCGeneratorWithLocalMethod (hist_best : nat -> Z) (nbc_cluster : nat -> list Z) c fuel s :
  answers (gen_NBCGeneratorWithLocalMethod hist_best nbc_cluster c fuel) s
          (map (fun d => (d, nbc_cluster d)) (flat_map (fun l => filter (fun d => d_active (dnth d (demes (ms s)))) (level_ids (demes (ms s)) l)) (seq 0 (height c - 2)))
           ++ map (fun d => (d, [hist_best d])) (filter (just_finished (ms s)) (level_ids (demes (ms s)) (height c - 2)))).
Proof. exact (NBCGeneratorWithLocalMethod_ok hist_best nbc_cluster c fuel s). Qed.
Print Assumptions C10_translated_NBCGeneratorWithLocalMethod.
Theorem C10_translated_generator_parents (val : nat -> list Z) c ds pk :
  In pk (map (fun d => (d, val d)) (active_non_leaves c ds)) ->
  fst pk < length ds /\ d_active (dnth (fst pk) ds) = true /\ S (d_lvl (dnth (fst pk) ds)) < height c.
Proof. exact (generator_parents val c ds pk). Qed.
Print Assumptions C10_translated_generator_parents.
Theorem C10_translated_generator_parents_distinct (val : nat -> list Z) c ds : NoDup (cm_keys (map (fun d => (d, val d)) (active_non_leaves c ds))).
Proof. exact (generator_parents_distinct val c ds). Qed.
Print Assumptions C10_translated_generator_parents_distinct.

(* ---------------------------------------------------------------- SproutMechanism.get_seeds TRANSLATED from the current
   pyhms/sprout/sprout_mechanisms.py (Gen/GenMechanism.v), instantiated with the translated BestPerDeme, FarEnough and LevelLimit
   (= get_simple_sprout): the seeds it returns are the non-empty entries of level_limit applied to the far-enough current bests of the
   active non-leaf demes — exactly the dictionary the machine's sprouting primitive p_get_seeds works with *)
Theorem C10_translated_simple_sprout_seeds (cur_best : nat -> Z) (dist : Z -> nat -> Z) c fuel thr L s :
  answers (gen_get_seeds simple_filter (gen_BestPerDeme cur_best c fuel) (simple_apply dist c fuel) [FFar thr] [FLevelLimit L]) s
          (nonempty (level_limit (maximize c) L (lvl_at (demes (ms s))) (active_at (demes (ms s))) (simple_cands cur_best dist c thr (ms s)))).
Proof. exact (simple_sprout_seeds cur_best dist c fuel thr L s). Qed.
Print Assumptions C10_translated_simple_sprout_seeds.
Theorem C10_translated_get_seeds_chain (F : Type) (generator : D cmap) (apply_filter : F -> cmap -> D cmap) (app : F -> st -> cmap -> cmap) :
  (forall f cm s, answers (apply_filter f cm) s (app f (ms s) cm)) -> forall dchain tchain cm0 s, answers generator s cm0 ->
  answers (gen_get_seeds F generator apply_filter dchain tchain) s
          (keep_nonempty (fold_left (fun cm f => app f (ms s) cm) tchain (fold_left (fun cm f => app f (ms s) cm) dchain cm0))).
Proof. exact (get_seeds_ok F generator apply_filter app). Qed.
Print Assumptions C10_translated_get_seeds_chain.

(* ---------------------------------------------------------------- Individual's ordering, TRANSLATED from the current pyhms/core/individual.py
   (Gen/GenOrder.v: @total_ordering over __lt__ = problem.worse_than(fitnesses), __eq__ = problem.equivalent(fitnesses)): the `>` / sorted(reverse=True) the filters rank candidates by is 'strictly better in the problem's direction' *)
Theorem C10_translated_individual_gt mx (a b : WMonad.F) : F64.fis_nan a = false -> F64.fis_nan b = false ->
  GenOrder.gen_ind_gt mx a b = if mx then F64.flt b a else F64.fgt b a.
Proof. exact (GenEquivOrder.ind_gt_is_strictly_better mx a b). Qed.
Print Assumptions C10_translated_individual_gt.
Theorem C10_translated_individual_gt_asymmetric mx (a b : WMonad.F) : F64.fis_nan a = false -> F64.fis_nan b = false ->
  GenOrder.gen_ind_gt mx a b = true -> GenOrder.gen_ind_gt mx b a = false.
Proof. exact (GenEquivOrder.ind_gt_asymmetric mx a b). Qed.
Print Assumptions C10_translated_individual_gt_asymmetric.
