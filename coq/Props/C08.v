(* Props/C08.v — the level limit on simultaneously active demes is never exceeded: at EVERY moment of EVERY accepted run,
   for every candidate stream and every verdict stream of the removing filters that follow LevelLimit in the chain. *)
From Coq Require Import List Bool Arith ZArith.
From HV Require Import Ord ListX Sprout SproutFacts Tree TreeLemmas TreeInv TreeRun.
From HV Require Import DriverPrim SproutPrim GenEquivStops GenLevelLimit FilterDict GenEquivLevelLimit.
From HV Require Import DriverPrim Driver DriverFacts GenDriver GenEquivDriver DriverCode.
From HV Require GenOrder GenEquivOrder F64 WMonad.
Import ListNotations.

Theorem C08_level_limit_always c n0 s L : 1 <= height c -> reach c n0 s -> level_lim c = Some L ->
  forall lv, 1 <= lv -> active_at (demes s) lv <= L.
Proof. intros H R HL. destruct (reach_INV c n0 s H R) as (_ & _ & _ & I & _). exact (I L HL). Qed.
Print Assumptions C08_level_limit_always.

(* a sprouting round never creates more demes on a level than the limit minus the demes active there *)
Theorem C08_round_bound c n0 s cands post inits s' L l : 1 <= height c -> reach c n0 s ->
  level_lim c = Some L -> step c s (ESprout cands post inits) = Some s' ->
  count (fun d => Nat.eqb (d_lvl d) (S l)) (demes s') - count (fun d => Nat.eqb (d_lvl d) (S l)) (demes s) <= L - active_at (demes s) (S l).
Proof. intros H R. destruct (reach_INV c n0 s H R) as (_ & _ & _ & I & _). exact (round_bound c s cands post inits s' L l I). Qed.
Print Assumptions C08_round_bound.

(* the filter itself, for ANY candidate map and occupancy: at most the free slots survive on every target level ... *)
Theorem C08_filter_count mx L lvl_of act (c : cmap) l :
  act (S l) <= L -> length (level_keys lvl_of l (level_limit mx L lvl_of act c)) <= L - act (S l).
Proof. exact (level_limit_count mx L lvl_of act c l). Qed.
Print Assumptions C08_filter_count.
(* ... and whatever removing filter follows cannot add any *)
Theorem C08_later_filters_only_remove lvl_of l (c : cmap) ms : length (level_keys lvl_of l (mask_cmap c ms)) <= length (level_keys lvl_of l c).
Proof. exact (level_keys_mask lvl_of l c ms). Qed.
Print Assumptions C08_later_filters_only_remove.

(* the invariant is inductive from ANY state satisfying it (a restored tree keeps it) *)
Theorem C08_inductive c s e s' : LL c s -> step c s e = Some s' -> LL c s'.
Proof. exact (LL_step c s e s'). Qed.
Print Assumptions C08_inductive.

(* non-vacuity: in the example run three candidates compete for two free slots; the cut keeps the two best *)
Example C08_example :
  level_limit false 2 (fun _ => 0) (fun _ => 0) [(0, [5; 3; 9]%Z)] = [(0, [5; 3]%Z)] /\
  level_limit true 2 (fun _ => 0) (fun _ => 1) [(0, [5; 3; 9]%Z)] = [(0, [9]%Z)] /\
  exists s, ex_final = Some s /\ length (demes s) = 3.
Proof. vm_compute. repeat split. eexists. split; reflexivity. Qed.

(* ---------------------------------------------------------------- the same for the TRANSLATED code.
   Gen/GenDriver.v is regenerated from /repo's current pyhms/tree.py (run, run_step, run_metaepoch, run_sprout, _do_sprout, active_demes,
   active_non_leaves) and the run_metaepoch methods of EADeme, DEDeme, SHADEDeme, CMADeme, LocalDeme, LHSDeme, SobolDeme on every check;
   `code_moment c fuel n evs s`: s is a state the translated run() passes through on the event stream evs. *)
Theorem C08_translated_code_level_limit c fuel n evs s L : 1 <= height c -> code_moment c fuel n evs s -> level_lim c = Some L ->
  forall lv, 1 <= lv -> active_at (demes s) lv <= L.
Proof. exact (code_moment_level_limit c fuel n evs s L). Qed.
Print Assumptions C08_translated_code_level_limit.

(* ---------------------------------------------------------------- LevelLimit TRANSLATED from the current pyhms/sprout/sprout_filters.py
   (Gen/GenFilters.v): on every candidate dictionary with distinct parents that are not leaves it only looks at the tree and returns
   exactly the model `level_limit` the machine applies in a sprouting round, so C08_filter_count / C08_round_bound speak about the code *)
Theorem C08_translated_LevelLimit c fuel L cm s :
  NoDup (cm_keys cm) -> (forall pk, In pk cm -> S (lvl_at (demes (ms s)) (fst pk)) < height c) ->
  answers (gen_LevelLimit c fuel L cm) s (level_limit (maximize c) L (lvl_at (demes (ms s))) (active_at (demes (ms s))) cm).
Proof. exact (LevelLimit_ok c fuel L cm s). Qed.
Print Assumptions C08_translated_LevelLimit.

(* ---------------------------------------------------------------- Individual's ordering, TRANSLATED from the current pyhms/core/individual.py
   (Gen/GenOrder.v: @total_ordering over __lt__ = problem.worse_than(fitnesses), __eq__ = problem.equivalent(fitnesses)): the `>` LevelLimit keeps candidates by is 'strictly better in the problem's direction' — never true between equally fit individuals, whatever their genomes, never true both ways *)
Theorem C08_translated_individual_gt mx (a b : WMonad.F) : F64.fis_nan a = false -> F64.fis_nan b = false ->
  GenOrder.gen_ind_gt mx a b = if mx then F64.flt b a else F64.fgt b a.
Proof. exact (GenEquivOrder.ind_gt_is_strictly_better mx a b). Qed.
Print Assumptions C08_translated_individual_gt.
Theorem C08_translated_individual_gt_asymmetric mx (a b : WMonad.F) : F64.fis_nan a = false -> F64.fis_nan b = false ->
  GenOrder.gen_ind_gt mx a b = true -> GenOrder.gen_ind_gt mx b a = false.
Proof. exact (GenEquivOrder.ind_gt_asymmetric mx a b). Qed.
Print Assumptions C08_translated_individual_gt_asymmetric.
