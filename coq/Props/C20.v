(* Props/C20.v — reports agree with the tree.  The report model (Model/Report.v: what summary() and tree() print, as numbers and
   deme lines) over every reachable state of the HMS machine. *)
From Coq Require Import List Bool Arith ZArith.
From HV Require Import Ord ListX Sprout Tree TreeLemmas TreeInv TreeRun TreeRan Report ReportFacts.
Import ListNotations.

(* metaepoch count, total evaluations (= every evaluation request made so far), number of demes; totals are the sums over levels *)
Theorem C20_summary_totals c n0 s : 1 <= height c -> reach c n0 s ->
  let r := summary (height c) s in
  s_meta r = mcount s /\ s_evals r = clock s /\ s_demes r = length (demes s) /\
  s_evals r = fold_right Nat.add 0 (map fst (s_levels r)) /\ s_demes r = fold_right Nat.add 0 (map snd (s_levels r)).
Proof. exact (summary_totals c n0 s). Qed.
Print Assumptions C20_summary_totals.

(* the deme lines: exactly the root and every deme that has run at least one metaepoch (a deme with children has run, so a
   displayed deme's ancestors are displayed and the depth-first walk reaches it) *)
Theorem C20_lines_exact c n0 s i : 1 <= height c -> reach c n0 s -> i < length (demes s) ->
  (In i (lines (demes s)) <-> i = 0 \/ 1 <= d_meta (dnth i (demes s))).
Proof.
  intros H R Hi. destruct (reach_INV c n0 s H R) as (_ & _ & W & _). exact (lines_exact c s W (parents_have_run c n0 s R) i Hi).
Qed.
Print Assumptions C20_lines_exact.
(* ... and every displayed deme is displayed exactly once *)
Theorem C20_one_line_per_deme c n0 s : 1 <= height c -> reach c n0 s -> NoDup (lines (demes s)).
Proof. intros H R. destruct (reach_INV c n0 s H R) as (_ & _ & W & _). exact (lines_NoDup c s W). Qed.
Print Assumptions C20_one_line_per_deme.
Theorem C20_parents_have_run c n0 s i p : reach c n0 s -> i < length (demes s) -> d_par (dnth i (demes s)) = Some p -> 1 <= d_meta (dnth p (demes s)).
Proof. intros R Hi P. pose proof (parents_have_run c n0 s R i Hi) as X. rewrite P in X. exact (proj2 X). Qed.
Print Assumptions C20_parents_have_run.

(* every line carries its own deme's evaluation count; the marker is on exactly the displayed demes whose best equals the global best *)
Theorem C20_line_fields ds best gb l : In l (tree_report ds best gb) ->
  In (l_deme l) (lines ds) /\ l_evals l = d_evals (dnth (l_deme l) ds) /\ (l_marked l = true <-> best (l_deme l) = gb).
Proof. exact (line_fields ds best gb l). Qed.
Print Assumptions C20_line_fields.
Theorem C20_marker_exact ds best gb i : In i (lines ds) -> (exists l, In l (tree_report ds best gb) /\ l_deme l = i /\ l_marked l = true) <-> best i = gb.
Proof. exact (marker_exact ds best gb i). Qed.
Print Assumptions C20_marker_exact.

(* non-vacuity, including a best fitness of exactly 0 (key 0): the marker is there (the pinned tree printed none: D12) *)
Example C20_example : exists s, ex_final = Some s /\ lines (demes s) = [0; 1; 2] /\
  map l_marked (tree_report (demes s) (fun i => nth i [5; 0; 0]%Z 0%Z) 0%Z) = [false; true; true] /\
  map l_evals (tree_report (demes s) (fun _ => 0%Z) 0%Z) = [39; 15; 20].
Proof. vm_compute. eexists. split; [reflexivity|]. repeat split. Qed.
