(* Props/C19.v — a tree can be snapshotted and restored at any metaepoch boundary (PARTIAL: that dump/load is the identity on the
   abstract state, leaves the live tree and the RNG untouched and restores engine internals is the behaviour of dill on a Python
   object graph and is decided by the harness; what is proved is that a machine RESUMED from any state satisfying the invariants
   keeps them — accounting relative to the restored counters). *)
From Coq Require Import List Bool Arith ZArith.
From HV Require Import Ord Sprout Select SelectFacts Tree TreeLemmas TreeInv TreeRun TreeRan Hist HistFacts.
From HV Require Import DriverPrim Driver DriverFacts GenDriver GenEquivDriver DriverCode.
From HV Require GenPersist GenEquivPersist.
Import ListNotations.

(* the invariants are inductive from ANY state satisfying them, not only from the initial one: structure (WFT), level limit (LL),
   exact accounting (CNT), lifecycle (ONCE), wind-down (WD), hibernation (HIB), control point (PcOK) *)
Theorem C19_resume_keeps_invariants c s evs s' : INV c s -> run c s evs = Some s' -> INV c s'.
Proof. exact (INV_run c evs s s'). Qed.
Print Assumptions C19_resume_keeps_invariants.
(* exact accounting relative to the restored counters: what the demes' counters gain is what the clock gains *)
Theorem C19_accounting_relative c s evs s' : INV c s -> run c s evs = Some s' ->
  total_evals (demes s') - total_evals (demes s) = clock s' - clock s.
Proof.
  intros I R. pose proof (INV_run c evs s s' I R) as I'. destruct I as (_ & C & _), I' as (_ & C' & _). unfold CNT in *. now rewrite C, C'.
Qed.
Print Assumptions C19_accounting_relative.
Theorem C19_level_limit_after_resume c s evs s' L : INV c s -> run c s evs = Some s' -> level_lim c = Some L -> forall lv, 1 <= lv -> active_at (demes s') lv <= L.
Proof. intros I R HL. destruct (INV_run c evs s s' I R) as (_ & _ & _ & LLs & _). exact (LLs L HL). Qed.
Print Assumptions C19_level_limit_after_resume.
Theorem C19_parents_have_run_after_resume c s evs s' : RAN s -> run c s evs = Some s' -> RAN s'.
Proof. exact (RAN_run c evs s s'). Qed.
(* histories: from any state satisfying the history invariant, further events keep it, only append, and no best gets worse *)
Theorem C19_history_invariant_after_resume evs s s' : HI s -> hrun s evs = Some s' -> HI s'.
Proof. exact (HI_run evs s s'). Qed.
Print Assumptions C19_history_invariant_after_resume.
Theorem C19_best_never_worse_after_resume mx evs s s' b b' : hrun s evs = Some s' ->
  best_of mx (tree_fits s) = Some b -> best_of mx (tree_fits s') = Some b' -> better mx b b' = false.
Proof. exact (tree_best_never_worse mx evs s s' b b'). Qed.
Print Assumptions C19_best_never_worse_after_resume.

(* non-vacuity: the state after the first 8 events of the example run satisfies the invariants, and the rest of the run resumes from it *)
Example C19_example : exists s1 s2, run ex_cfg (init 10) (firstn 8 ex_events) = Some s1 /\ pc s1 = PMain /\ length (demes s1) = 3 /\
  run ex_cfg s1 (skipn 8 ex_events) = Some s2 /\ pc s2 = PDone /\ total_evals (demes s2) - total_evals (demes s1) = clock s2 - clock s1.
Proof. vm_compute. eexists. eexists. repeat split. Qed.

(* ---------------------------------------------------------------- the same for the run() TRANSLATED from the current sources: resumed from any
   boundary state satisfying the invariants (what a restored snapshot is), it performs an accepted machine run whose every state satisfies
   them again (structure, level limit, exact accounting relative to the restored counters, wind-down, hibernation) *)
Theorem C19_translated_resume c fuel s evs s' rest :
  gens_ok c -> pc s = PMain -> INV c s -> exec (gen_tree_run c fuel) s evs = Some (tt, s', rest) ->
  exists used s'', evs = used ++ rest /\ run c s used = Some s'' /\ pc s'' = PDone /\ set_pc s'' PMain = set_pc s' PMain /\ INV c s'' /\
    (forall k s_k, run c s (firstn k used) = Some s_k -> INV c s_k).
Proof. exact (code_resume_keeps_invariants c fuel s evs s' rest). Qed.
Print Assumptions C19_translated_resume.

(* what a snapshot is, read off the current sources (Gen/GenPersist.v): pickle_dump / pickle_load are the plain dump / load of the tree
   object and no class of the package customises pickling or copying *)
Theorem C19_translated_snapshot_is_default_pickle :
  GenPersist.pickle_customisations = [] /\ GenPersist.dump_is_plain = true /\ GenPersist.load_is_plain = true.
Proof. exact GenEquivPersist.snapshot_is_default_pickle. Qed.
Print Assumptions C19_translated_snapshot_is_default_pickle.
