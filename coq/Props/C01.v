(* Props/C01.v — the objective is never evaluated outside the box; neither is anything stored outside it. *)
From Coq Require Import ZArith Bool List.
From HV Require Import F64 Bounds GenCommon GenEquivCommon F64Facts BoundsFacts Ops OpsFacts Ord Select SelectFacts Hist HistFacts.
From HV Require Import GenOps GenEquivOps.
Import ListNotations.

(* (a) concrete layer, on ALL binary64 values and every random draw: each operator's genes lie in the box.  The repair is the
   definition regenerated from /repo's apply_bounds (C17) *)
Theorem C01_repair_in_box (m : method) (x lo hi : f64) :
  fle lo hi = true -> fis_nan (gen_apply_bounds m x lo hi) = false -> in_box1 (gen_apply_bounds m x lo hi) lo hi = true.
Proof. rewrite gen_apply_bounds_eq. exact (apply_bounds_in_box m x lo hi). Qed.
Print Assumptions C01_repair_in_box.
Theorem C01_gaussian_mutation x delta lo hi : fle lo hi = true -> fis_nan (gauss_gene x delta lo hi) = false -> in_box1 (gauss_gene x delta lo hi) lo hi = true.
Proof. exact (gauss_gene_in_box x delta lo hi). Qed.
Print Assumptions C01_gaussian_mutation.
Theorem C01_uniform_mutation mask sample x lo hi : in_box1 sample lo hi = true -> in_box1 x lo hi = true -> in_box1 (uniform_gene mask sample x) lo hi = true.
Proof. exact (uniform_gene_in_box mask sample x lo hi). Qed.
Theorem C01_arithmetic_crossover v lo hi : fle lo hi = true -> fis_nan v = false -> in_box1 (crossover_gene v lo hi) lo hi = true.
Proof. exact (crossover_gene_in_box v lo hi). Qed.
Print Assumptions C01_arithmetic_crossover.
Theorem C01_de_trial take donor x lo hi : fle lo hi = true -> in_box1 x lo hi = true ->
  fis_nan (apply_bounds MReflect donor lo hi) = false -> in_box1 (de_gene take donor x lo hi) lo hi = true.
Proof. exact (de_gene_in_box take donor x lo hi). Qed.
Print Assumptions C01_de_trial.
(* the same with the operators' own arithmetic included (x + mask * noise; alpha x + (1 - alpha) y; r0 + f (r1 - r2)): these are the
   definitions the harness compares bit for bit with the real operators driven by prepared random draws *)
Theorem C01_gaussian_full x noise mask lo hi : fle lo hi = true -> fis_nan (gauss_full x noise mask lo hi) = false -> in_box1 (gauss_full x noise mask lo hi) lo hi = true.
Proof. exact (gauss_full_in_box x noise mask lo hi). Qed.
Theorem C01_arithmetic_full a x y lo hi : fle lo hi = true -> fis_nan (arith_combine a x y) = false -> in_box1 (arith_gene a x y lo hi) lo hi = true.
Proof. exact (arith_gene_in_box a x y lo hi). Qed.
Theorem C01_de_full take f r0 r1 r2 x lo hi : fle lo hi = true -> in_box1 x lo hi = true ->
  fis_nan (apply_bounds MReflect (de_donor f r0 r1 r2) lo hi) = false -> in_box1 (de_full take f r0 r1 r2 x lo hi) lo hi = true.
Proof. exact (de_full_in_box take f r0 r1 r2 x lo hi). Qed.
Print Assumptions C01_de_full.
Theorem C01_sample_normal fuel draws box x : sample_normal fuel draws box = Some x -> in_box x box = true.
Proof. exact (sample_normal_in_box fuel draws box x). Qed.
Theorem C01_gaussian_vector xs deltas box : length xs = length box -> length deltas = length box ->
  Forall (fun lh => fle (fst lh) (snd lh) = true) box -> Forall (fun g => fis_nan g = false) (gauss_vec xs deltas box) -> in_box (gauss_vec xs deltas box) box = true.
Proof. exact (gauss_vec_in_box xs deltas box). Qed.
Print Assumptions C01_gaussian_vector.

(* LHS / Sobol: lower + sample * (upper - lower).  For every box on which the decidable test scale_ok holds (the largest double
   below 1 still lands inside; the harness evaluates it for every box it generates) EVERY sample in [0, 1) lands inside *)
Theorem C01_lhs_sobol_scaling lo hi s : scale_ok lo hi = true -> fis_finite s = true -> fle (fzero false) s = true -> fle s pred_one = true ->
  in_box1 (scale_gene lo hi s) lo hi = true.
Proof. exact (scale_gene_in_box lo hi s). Qed.
Print Assumptions C01_lhs_sobol_scaling.

(* (b) history machine, every accepted event stream: whatever holds of every genome the objective was evaluated at (here: lying
   in the box) holds of every genome stored in any history and of every sprout seed — nothing is stored that was not evaluated *)
Theorem C01_stored_genomes_were_evaluated (P : Z -> Prop) s : hreach s -> (forall d x v, In (d, x, v) (evlog s) -> P x) ->
  forall d hd, nth_error (hdemes s) d = Some hd ->
    (forall g t i, In (g, t) (hgens hd) -> In i g -> P (ig i)) /\ (forall sd, hseed hd = Some sd -> P (ig sd)).
Proof. exact (stored_genomes_were_evaluated P s). Qed.
Print Assumptions C01_stored_genomes_were_evaluated.

Example C01_example :
  let lo := of_bits 0xBFB999999999999A in let hi := of_bits 0x3FC999999999999A in
  in_box1 (gauss_gene (of_bits 0x3FC999999999999A) (of_bits 0x3FD3333333333333) lo hi) lo hi = true /\
  in_box1 (de_gene true (of_bits 0x3FE0000000000000) lo lo hi) lo hi = true /\
  scale_ok lo hi = true /\ in_box1 (scale_gene lo hi pred_one) lo hi = true.
Proof. vm_compute. auto. Qed.

(* ---------------------------------------------------------------- the per-gene arithmetic TRANSLATED from the current sea.py, de.py,
   lhs_deme.py, sobol_deme.py and initializers.py (Gen/GenOps.v: numpy's elementwise expression as a binary64 function of one gene; random
   draws are arguments) IS the operator model the theorems above are about *)
Theorem C01_translated_gaussian x noise mask lo hi : gen_gaussian_gene x noise mask lo hi = gauss_full x noise mask lo hi.
Proof. exact (gaussian_gene_eq x noise mask lo hi). Qed.
Print Assumptions C01_translated_gaussian.
Theorem C01_translated_uniform mask sample x : gen_uniform_gene mask sample x = uniform_gene mask sample x.
Proof. exact (uniform_gene_eq mask sample x). Qed.
Theorem C01_translated_arithmetic a x y lo hi : gen_arith_clip (gen_arith_first a x y) lo hi = arith_gene a x y lo hi.
Proof. exact (arith_first_eq a x y lo hi). Qed.
Theorem C01_translated_arithmetic_second a x y lo hi :
  gen_arith_clip (gen_arith_second a x y) lo hi = crossover_gene (fadd (fmul (fsub fone a) x) (fmul a y)) lo hi.
Proof. exact (arith_second_eq a x y lo hi). Qed.
Theorem C01_translated_de take f r0 r1 r2 x lo hi :
  gen_de_crossover_gene take (gen_de_donor_repair (gen_de_donor f r0 r1 r2) lo hi) x = de_full take f r0 r1 r2 x lo hi.
Proof. exact (de_gene_eq take f r0 r1 r2 x lo hi). Qed.
Print Assumptions C01_translated_de.
Theorem C01_translated_de_dither take f r0 r1 r2 x lo hi :
  gen_de_crossover_gene take (gen_de_dither_donor_repair (gen_de_dither_donor f r0 r1 r2) lo hi) x = de_full take f r0 r1 r2 x lo hi.
Proof. exact (de_dither_gene_eq take f r0 r1 r2 x lo hi). Qed.
Theorem C01_translated_shade take f x pb r0 ra lo hi :
  gen_de_crossover_gene take (gen_pbest_repair (gen_pbest_donor f x pb r0 ra) lo hi) x = de_gene take (gen_pbest_donor f x pb r0 ra) x lo hi.
Proof. exact (pbest_gene_eq take f x pb r0 ra lo hi). Qed.
Theorem C01_translated_lhs_sobol lo hi s : gen_LHSDeme_scale lo hi s = scale_gene lo hi s /\ gen_SobolDeme_scale lo hi s = scale_gene lo hi s.
Proof. exact (conj (lhs_scale_eq lo hi s) (sobol_scale_eq lo hi s)). Qed.
Theorem C01_translated_sample_normal_test x lo hi : gen_in_bounds_gene x lo hi = in_box1 x lo hi.
Proof. exact (in_bounds_gene_eq x lo hi). Qed.
