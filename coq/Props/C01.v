(* Props/C01.v — the objective is never evaluated outside the box; neither is anything stored outside it. *)
From Coq Require Import ZArith Bool List.
From HV Require Import F64 Bounds GenCommon GenEquivCommon F64Facts BoundsFacts Ops OpsFacts Ord Select SelectFacts Hist HistFacts.
Import ListNotations.

(* (a) concrete layer, on ALL binary64 values and every random draw: each operator's genes lie in the box.  The repair is the
   definition regenerated from /repo's apply_bounds (C17) *)
Theorem C01_repair_in_box (m : method) (x lo hi : f64) :
  fle lo hi = true -> fis_nan (gen_apply_bounds m x lo hi) = false -> in_box1 (gen_apply_bounds m x lo hi) lo hi = true.
Proof. rewrite gen_apply_bounds_eq. exact (apply_bounds_in_box m x lo hi). Qed.
Print Assumptions C01_repair_in_box.
Theorem C01_gaussian_mutation x delta lo hi : fle lo hi = true -> fis_nan (gauss_gene x delta lo hi) = false -> in_box1 (gauss_gene x delta lo hi) lo hi = true.
Proof. exact (gauss_gene_in_box x delta lo hi). Qed.
Print Assumptions C01_gaussian_mutation.
Theorem C01_uniform_mutation mask sample x lo hi : in_box1 sample lo hi = true -> in_box1 x lo hi = true -> in_box1 (uniform_gene mask sample x) lo hi = true.
Proof. exact (uniform_gene_in_box mask sample x lo hi). Qed.
Theorem C01_arithmetic_crossover v lo hi : fle lo hi = true -> fis_nan v = false -> in_box1 (crossover_gene v lo hi) lo hi = true.
Proof. exact (crossover_gene_in_box v lo hi). Qed.
Print Assumptions C01_arithmetic_crossover.
Theorem C01_de_trial take donor x lo hi : fle lo hi = true -> in_box1 x lo hi = true ->
  fis_nan (apply_bounds MReflect donor lo hi) = false -> in_box1 (de_gene take donor x lo hi) lo hi = true.
Proof. exact (de_gene_in_box take donor x lo hi). Qed.
Print Assumptions C01_de_trial.
(* the same with the operators' own arithmetic included (x + mask * noise; alpha x + (1 - alpha) y; r0 + f (r1 - r2)): these are the
   definitions the harness compares bit for bit with the real operators driven by prepared random draws *)
Theorem C01_gaussian_full x noise mask lo hi : fle lo hi = true -> fis_nan (gauss_full x noise mask lo hi) = false -> in_box1 (gauss_full x noise mask lo hi) lo hi = true.
Proof. exact (gauss_full_in_box x noise mask lo hi). Qed.
Theorem C01_arithmetic_full a x y lo hi : fle lo hi = true -> fis_nan (arith_combine a x y) = false -> in_box1 (arith_gene a x y lo hi) lo hi = true.
Proof. exact (arith_gene_in_box a x y lo hi). Qed.
Theorem C01_de_full take f r0 r1 r2 x lo hi : fle lo hi = true -> in_box1 x lo hi = true ->
  fis_nan (apply_bounds MReflect (de_donor f r0 r1 r2) lo hi) = false -> in_box1 (de_full take f r0 r1 r2 x lo hi) lo hi = true.
Proof. exact (de_full_in_box take f r0 r1 r2 x lo hi). Qed.
Print Assumptions C01_de_full.
Theorem C01_sample_normal fuel draws box x : sample_normal fuel draws box = Some x -> in_box x box = true.
Proof. exact (sample_normal_in_box fuel draws box x). Qed.
Theorem C01_gaussian_vector xs deltas box : length xs = length box -> length deltas = length box ->
  Forall (fun lh => fle (fst lh) (snd lh) = true) box -> Forall (fun g => fis_nan g = false) (gauss_vec xs deltas box) -> in_box (gauss_vec xs deltas box) box = true.
Proof. exact (gauss_vec_in_box xs deltas box). Qed.
Print Assumptions C01_gaussian_vector.

(* LHS / Sobol: lower + sample * (upper - lower).  For every box on which the decidable test scale_ok holds (the largest double
   below 1 still lands inside; the harness evaluates it for every box it generates) EVERY sample in [0, 1) lands inside *)
Theorem C01_lhs_sobol_scaling lo hi s : scale_ok lo hi = true -> fis_finite s = true -> fle (fzero false) s = true -> fle s pred_one = true ->
  in_box1 (scale_gene lo hi s) lo hi = true.
Proof. exact (scale_gene_in_box lo hi s). Qed.
Print Assumptions C01_lhs_sobol_scaling.

(* (b) history machine, every accepted event stream: whatever holds of every genome the objective was evaluated at (here: lying
   in the box) holds of every genome stored in any history and of every sprout seed — nothing is stored that was not evaluated *)
Theorem C01_stored_genomes_were_evaluated (P : Z -> Prop) s : hreach s -> (forall d x v, In (d, x, v) (evlog s) -> P x) ->
  forall d hd, nth_error (hdemes s) d = Some hd ->
    (forall g t i, In (g, t) (hgens hd) -> In i g -> P (ig i)) /\ (forall sd, hseed hd = Some sd -> P (ig sd)).
Proof. exact (stored_genomes_were_evaluated P s). Qed.
Print Assumptions C01_stored_genomes_were_evaluated.

Example C01_example :
  let lo := of_bits 0xBFB999999999999A in let hi := of_bits 0x3FC999999999999A in
  in_box1 (gauss_gene (of_bits 0x3FC999999999999A) (of_bits 0x3FD3333333333333) lo hi) lo hi = true /\
  in_box1 (de_gene true (of_bits 0x3FE0000000000000) lo lo hi) lo hi = true /\
  scale_ok lo hi = true /\ in_box1 (scale_gene lo hi pred_one) lo hi = true.
Proof. vm_compute. auto. Qed.
