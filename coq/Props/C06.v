(* Props/C06.v — deme lifecycle: one metaepoch per step while active and awake; stopping is final. *)
From Coq Require Import List Bool Arith.
From HV Require Import Ord Sprout Tree TreeLemmas TreeInv TreeRun.
From HV Require Import DriverPrim Driver DriverFacts GenDriver GenEquivDriver DriverCode GenStops GenEquivStops.
From HV Require Import Ctor GenCtor GenEquivCtor.
Import ListNotations.

(* between metaepochs (and whenever no deme is mid-metaepoch): every deme has advanced by exactly one metaepoch if it was
   active and awake when the metaepoch began (d_should), by zero otherwise; a deme created by the round has d_should = false *)
Theorem C06_stepped_exactly_once c n0 s : 1 <= height c -> reach c n0 s -> (forall t d g sub, pc s <> PDeme t d g sub) ->
  forall i, i < length (demes s) -> d_meta (dnth i (demes s)) = d_meta0 (dnth i (demes s)) + b2n (d_should (dnth i (demes s))).
Proof.
  intros H R N. destruct (reach_INV c n0 s H R) as (_ & _ & _ & _ & O & _). unfold ONCE in O.
  destruct (pc s) eqn:P; try exact O. exfalso. eapply N. reflexivity.
Qed.
Print Assumptions C06_stepped_exactly_once.

(* d_should is exactly "active and not hibernating at the start of the metaepoch" *)
Theorem C06_should_def h d : d_should (mark_step h d) = d_active d && negb (h && d_hib d) /\ d_meta0 (mark_step h d) = d_meta d.
Proof. split; reflexivity. Qed.

(* the deme whose metaepoch is in progress is active, was active and awake at the start, and is awake *)
Theorem C06_running_deme_is_active c n0 s t d g sub : 1 <= height c -> reach c n0 s -> pc s = PDeme t d g sub ->
  d < length (demes s) /\ d_active (dnth d (demes s)) = true /\ d_should (dnth d (demes s)) = true /\ ~ In d t.
Proof.
  intros H R P. destruct (reach_INV c n0 s H R) as (K & _). unfold PcOK in K. rewrite P in K. destruct K as (ND & F).
  inversion F as [|? ? (A & B & C & _) _]; subst. inversion ND; subst. auto.
Qed.
Print Assumptions C06_running_deme_is_active.

(* stopping is final: over ANY number of further steps an inactive deme stays inactive, evaluates nothing, its history
   does not grow *)
Theorem C06_inactive_is_frozen c n0 s evs s' : 1 <= height c -> reach c n0 s -> run c s evs = Some s' ->
  length (demes s) <= length (demes s') /\
  forall i, i < length (demes s) -> d_active (dnth i (demes s)) = false ->
    d_active (dnth i (demes s')) = false /\ d_evals (dnth i (demes s')) = d_evals (dnth i (demes s)) /\ d_meta (dnth i (demes s')) = d_meta (dnth i (demes s)).
Proof. intros H R E. exact (frozen_run c evs s s' (reach_INV c n0 s H R) E). Qed.
Print Assumptions C06_inactive_is_frozen.

(* an active deme becomes inactive in one step only for a stated cause — the global stop condition answered true at one of its
   own consults, its local stop condition answered true, CMA-ES stopped itself, or its one-shot local search completed — and only
   while it is the deme whose metaepoch is in progress *)
Theorem C06_deactivation_has_a_cause c s e s' i : step c s e = Some s' -> i < length (demes s) ->
  d_active (dnth i (demes s)) = true -> d_active (dnth i (demes s')) = false ->
  (e = EGsc true \/ e = ELsc true \/ e = ECma true \/ exists n, e = ELocal n) /\ exists t g sub, pc s = PDeme t i g sub.
Proof. exact (deactivation_has_a_cause c s e s' i). Qed.
Print Assumptions C06_deactivation_has_a_cause.

(* a fresh deme is active, awake, has run no metaepoch and is not scheduled in the metaepoch that created it *)
Theorem C06_fresh lvl par m ev : let d := new_deme lvl par m ev in d_active d = true /\ d_hib d = false /\ d_meta d = 0 /\ d_should d = false /\ d_started d = m.
Proof. repeat split. Qed.

Example C06_example : exists s, ex_final = Some s /\ map d_active (demes s) = [true; false; false] /\ map d_meta (demes s) = [2; 1; 2].
Proof. vm_compute. eexists. split; [reflexivity|]. split; reflexivity. Qed.

(* ---------------------------------------------------------------- the same for the TRANSLATED code.
   Gen/GenDriver.v is regenerated from /repo's current pyhms/tree.py (run, run_step, run_metaepoch, run_sprout, _do_sprout, active_demes,
   active_non_leaves) and the run_metaepoch methods of EADeme, DEDeme, SHADEDeme, CMADeme, LocalDeme, LHSDeme, SobolDeme on every check;
   `code_moment c fuel n evs s`: s is a state the translated run() passes through on the event stream evs. *)
Theorem C06_translated_code_stepped_once c fuel n evs s : 1 <= height c -> code_moment c fuel n evs s -> ONCE c s.
Proof. exact (code_moment_once c fuel n evs s). Qed.
Print Assumptions C06_translated_code_stepped_once.
Theorem C06_translated_code_moments_are_reachable c fuel n evs s : code_moment c fuel n evs s -> reach c n s.
Proof. exact (code_moment_reach c fuel n evs s). Qed.
Print Assumptions C06_translated_code_moments_are_reachable.

(* ---------------------------------------------------------------- the shipped local stop conditions, TRANSLATED from the current
   pyhms/stop_conditions/usc.py and lsc.py (Gen/GenStops.v): each only looks and answers exactly what the machine takes as the verdict
   of the deme's local stop condition (FitnessSteadiness, a float average, stays an oracle) *)
Theorem C06_translated_MetaepochLimit c fuel n d s :
  exists b, answers (gen_MetaepochLimit_deme c fuel n d) s b /\ lsc_eval (LMetaLimit n) d (demes (ms s)) = Some b.
Proof. exact (MetaepochLimit_deme_ok c fuel n d s). Qed.
Print Assumptions C06_translated_MetaepochLimit.
Theorem C06_translated_AllChildrenStopped c fuel d s :
  exists b, answers (gen_AllChildrenStopped c fuel d) s b /\ lsc_eval LAllChildrenStopped d (demes (ms s)) = Some b.
Proof. exact (AllChildrenStopped_ok c fuel d s). Qed.
Print Assumptions C06_translated_AllChildrenStopped.
(* FitnessSteadiness(max_deviation, n): the early return translated from lsc.py is the part of its verdict the machine computes (false while the deme has
   run fewer than n metaepochs); the float-valued rest is an oracle of the machine, recomputed exactly by the monitor on recorded runs *)
Theorem C06_translated_FitnessSteadiness_early c fuel n d s :
  exists b, answers (gen_FitnessSteadiness_early c fuel n d) s b /\
            lsc_eval (LSteadiness n) d (demes (ms s)) = (if b then None else Some false).
Proof. exact (FitnessSteadiness_early_ok c fuel n d s). Qed.
Print Assumptions C06_translated_FitnessSteadiness_early.
Theorem C06_translated_DontStop c fuel d s : exists b, answers (gen_DontStop_deme c fuel d) s b /\ lsc_eval LDontStop d (demes (ms s)) = Some b.
Proof. exact (DontStop_deme_ok c fuel d s). Qed.
Print Assumptions C06_translated_DontStop.
Theorem C06_translated_DontRun c fuel d s : exists b, answers (gen_DontRun_deme c fuel d) s b /\ lsc_eval LDontRun d (demes (ms s)) = Some b.
Proof. exact (DontRun_deme_ok c fuel d s). Qed.
Print Assumptions C06_translated_DontRun.

(* ---------------------------------------------------------------- the same for the TRANSLATED constructors.
   Gen/GenCtor.v is regenerated on every check from AbstractDeme.__init__, the __init__ of EADeme, DEDeme, SHADEDeme, CMADeme, LocalDeme,
   LHSDeme, SobolDeme (+ the run() the two samplers call), Individual.__init__ / evaluate / evaluate_population / create_population,
   init_from_config and DemeTree.__init__ (hv/translate/ctor_py.py); `ctor_ok lvl started local o pop`: the constructor built the deme
   `fresh_deme lvl started n` the machine's sprouting step assumes, its history holding exactly the start population pop. *)
(* lifecycle starts in the constructor: every class builds an ACTIVE deme that has run zero metaepochs (fresh_deme), started at the
   metaepoch init_from_config was given *)
Theorem C06_translated_ctor_starts_active lvl started n : d_active (fresh_deme lvl started n) = true /\ d_meta (fresh_deme lvl started n) = 0 /\ d_started (fresh_deme lvl started n) = started.
Proof. repeat split. Qed.
Theorem C06_translated_ctors lvl started seed pop_size : 1 <= pop_size ->
  Forall (fun o => exists n, o = Some (fresh_deme lvl started n))
    [built (gen_EADeme_init pop_size (gen_init_args lvl started seed)) false; built (gen_DEDeme_init pop_size (gen_init_args lvl started seed)) false;
     built (gen_SHADEDeme_init pop_size (gen_init_args lvl started seed)) false; built (gen_CMADeme_init pop_size (gen_init_args lvl started seed)) false;
     built (gen_LHSDeme_init pop_size (gen_init_args lvl started seed)) false; built (gen_SobolDeme_init pop_size (gen_init_args lvl started seed)) false;
     built (gen_LocalDeme_init (gen_init_args lvl started seed)) true].
Proof.
  intros H. repeat constructor.
  - destruct (EADeme_ctor_ok lvl started seed pop_size H) as (A & _). eauto.
  - destruct (DEDeme_ctor_ok lvl started seed pop_size H) as (A & _). eauto.
  - destruct (SHADEDeme_ctor_ok lvl started seed pop_size H) as (A & _). eauto.
  - destruct (CMADeme_ctor_ok lvl started seed pop_size) as (A & _). eauto.
  - destruct (LHSDeme_ctor_ok lvl started seed pop_size) as (A & _). eauto.
  - destruct (SobolDeme_ctor_ok lvl started seed pop_size) as (A & _). eauto.
  - destruct (LocalDeme_ctor_ok lvl started seed) as (A & _). eauto.
Qed.
Print Assumptions C06_translated_ctors.
