(* Props/C18.v — hibernation suspends exactly the demes that did not sprout.  Every accepted run of the HMS machine. *)
From Coq Require Import List Bool Arith ZArith.
From HV Require Import Ord Sprout Tree TreeLemmas TreeInv TreeRun.
From HV Require Import DriverPrim Driver DriverFacts GenDriver GenEquivDriver DriverCode.
From HV Require Import Ctor GenCtor GenEquivCtor.
Import ListNotations.

(* last_round s = (participants, sprouted): the demes that existed, were active and non-leaf when the most recent round
   began, and those of them the round took a sprout from *)
Theorem C18_hibernating_iff c n0 s : 1 <= height c -> reach c n0 s -> hib_on c = true ->
  forall i, i < length (demes s) -> let d := dnth i (demes s) in
    d_active d = true -> S (d_lvl d) < height c ->
    d_hib d = mem i (fst (last_round s)) && negb (mem i (snd (last_round s))).
Proof. intros H R On i Hi. destruct (reach_INV c n0 s H R) as (_ & _ & _ & _ & _ & _ & (_ & I)). exact (proj1 (I On i Hi)). Qed.
Print Assumptions C18_hibernating_iff.

Theorem C18_off_never_hibernates c n0 s : 1 <= height c -> reach c n0 s -> hib_on c = false ->
  forall i, i < length (demes s) -> d_hib (dnth i (demes s)) = false.
Proof. intros H R Off. destruct (reach_INV c n0 s H R) as (_ & _ & _ & _ & _ & _ & (I & _)). exact (I Off). Qed.
Print Assumptions C18_off_never_hibernates.

(* while it sleeps, a deme's evaluation counter and history length are those it had when it fell asleep *)
Theorem C18_hibernating_is_frozen c n0 s : 1 <= height c -> reach c n0 s -> hib_on c = true ->
  forall i, i < length (demes s) -> d_hib (dnth i (demes s)) = true -> d_hibmark (dnth i (demes s)) = (d_evals (dnth i (demes s)), d_meta (dnth i (demes s))).
Proof. intros H R On i Hi. destruct (reach_INV c n0 s H R) as (_ & _ & _ & _ & _ & _ & (_ & I)). exact (proj2 (I On i Hi)). Qed.
Print Assumptions C18_hibernating_is_frozen.

(* a deme created by a round starts awake (and active) *)
Theorem C18_newborn_awake lvl par m ev : d_hib (new_deme lvl par m ev) = false /\ d_active (new_deme lvl par m ev) = true.
Proof. split; reflexivity. Qed.

(* a hibernating deme is never scheduled: the deme whose metaepoch is in progress is awake *)
Theorem C18_running_deme_is_awake c n0 s t d g sub : 1 <= height c -> reach c n0 s -> hib_on c = true -> pc s = PDeme t d g sub ->
  d_hib (dnth d (demes s)) = false.
Proof.
  intros H R On P. destruct (reach_INV c n0 s H R) as (K & _). unfold PcOK in K. rewrite P in K. destruct K as (_ & F).
  inversion F as [|? ? (_ & _ & _ & A) _]; subst. exact (A On).
Qed.
Print Assumptions C18_running_deme_is_awake.

(* the progress clause is FALSE of the code as written (known finding D11): there is an accepted run that reaches a
   metaepoch boundary with the global condition false, an active deme, every active deme hibernating; the next metaepoch
   schedules nobody, evaluates nothing, and (no candidate passing the filters) the state after it differs only in the counter *)
Definition stall_cfg : cfg :=
  {| height := 2; kinds := [KPop; KCma]; ngens := [1; 1]; lscs := [LDontStop; LMetaLimit 1]; gsc := GDontStop;
     hib_on := true; level_lim := Some 1; maximize := false |}.
Definition stall_prefix : list event :=
  [ EGsc false; EGen 5; EGsc false; ELsc false; EGsc false; ESprout [(0, [1]%Z)] [[true]] [6];
    EGsc false; EGen 6; EGsc false; ECma false; ELsc true; EGen 5; EGsc false; ELsc false; EGsc false; ESprout [(0, [1]%Z)] [[false]] [] ].
Definition stall_loop : list event := [ EGsc false; EGsc false; ESprout [(0, [1]%Z)] [[false]] [] ].
Theorem C18_progress_refuted : exists s s',
  run stall_cfg (init 4) stall_prefix = Some s /\ pc s = PMain /\ gsc_eval (gsc stall_cfg) 2 s = Some false /\
  d_active (dnth 0 (demes s)) = true /\ forallb (fun d => negb (d_active d) || d_hib d) (demes s) = true /\
  run stall_cfg s stall_loop = Some s' /\ clock s' = clock s /\
  map (fun d => (d_evals d, d_meta d, d_active d, d_hib d)) (demes s') = map (fun d => (d_evals d, d_meta d, d_active d, d_hib d)) (demes s) /\
  mcount s' = S (mcount s) /\ pc s' = PMain.
Proof. vm_compute. eexists. eexists. repeat split. Qed.
Print Assumptions C18_progress_refuted.

(* what does hold: a metaepoch schedules exactly the demes that are active and awake, so when one exists the metaepoch
   contains an engine iteration of it *)
Theorem C18_awake_demes_are_scheduled c s s' : pc s = PMain -> step c s (EGsc false) = Some s' ->
  (forall i, i < length (demes s) -> d_active (dnth i (demes s)) = true -> hib_on c && d_hib (dnth i (demes s)) = false ->
             d_lvl (dnth i (demes s)) < height c ->
             match pc s' with PDeme t d _ _ => i = d \/ In i t | _ => False end).
Proof.
  intros P H i Hi Ha Hh Hl. unfold step in H. rewrite P in H. cbv zeta in H. destruct (negb _ || _); [discriminate|]. injection H as <-.
  set (ds := map (mark_step (hib_on c)) (demes s)).
  assert (In i (rev (level_order (height c) d_should ds))) as Hin.
  { apply -> in_rev. apply level_order_spec. subst ds. rewrite map_length. split; [assumption|]. rewrite dnth_map by assumption. simpl.
    split; [assumption|]. rewrite Ha. simpl. destruct (hib_on c); simpl in *; [now rewrite Hh|reflexivity]. }
  rewrite begin_deme_pc. destruct (rev _) as [|d t]; [destruct Hin|]. destruct Hin as [->|Hin]; auto.
Qed.
Print Assumptions C18_awake_demes_are_scheduled.

(* ... and a scheduled deme's first event is an engine iteration (a generation, or one complete local search): a metaepoch that
   schedules somebody contains an engine iteration *)
Theorem C18_scheduled_deme_iterates c s e s' t d g : step c s e = Some s' -> (pc s = PDeme t d g SGen \/ pc s = PDeme t d g SLocal) ->
  (exists n, e = EGen n) \/ (exists n, e = ELocal n).
Proof. exact (scheduled_deme_iterates c s e s' t d g). Qed.
Print Assumptions C18_scheduled_deme_iterates.

Example C18_example : exists s, ex_final = Some s /\ map d_hib (demes s) = [true; false; false] /\ last_round s = ([0], []).
Proof. vm_compute. eexists. split; [reflexivity|]. split; reflexivity. Qed.

(* ---------------------------------------------------------------- the same for the TRANSLATED code.
   Gen/GenDriver.v is regenerated from /repo's current pyhms/tree.py (run, run_step, run_metaepoch, run_sprout, _do_sprout, active_demes,
   active_non_leaves) and the run_metaepoch methods of EADeme, DEDeme, SHADEDeme, CMADeme, LocalDeme, LHSDeme, SobolDeme on every check;
   `code_moment c fuel n evs s`: s is a state the translated run() passes through on the event stream evs. *)
Theorem C18_translated_code_hibernation c fuel n evs s : 1 <= height c -> code_moment c fuel n evs s -> HIB c s.
Proof. exact (code_moment_hibernation c fuel n evs s). Qed.
Print Assumptions C18_translated_code_hibernation.

(* ---------------------------------------------------------------- the same for the TRANSLATED constructors.
   Gen/GenCtor.v is regenerated on every check from AbstractDeme.__init__, the __init__ of EADeme, DEDeme, SHADEDeme, CMADeme, LocalDeme,
   LHSDeme, SobolDeme (+ the run() the two samplers call), Individual.__init__ / evaluate / evaluate_population / create_population,
   init_from_config and DemeTree.__init__ (hv/translate/ctor_py.py); `ctor_ok lvl started local o pop`: the constructor built the deme
   `fresh_deme lvl started n` the machine's sprouting step assumes, its history holding exactly the start population pop. *)
(* a deme is created awake: AbstractDeme.__init__ sets _hibernating = False and no subclass constructor touches it *)
Theorem C18_translated_ctor_awake lvl started seed pop_size : 1 <= pop_size ->
  Forall (fun o => exists d, o = Some d /\ d_hib d = false)
    [built (gen_EADeme_init pop_size (gen_init_args lvl started seed)) false; built (gen_DEDeme_init pop_size (gen_init_args lvl started seed)) false;
     built (gen_SHADEDeme_init pop_size (gen_init_args lvl started seed)) false; built (gen_CMADeme_init pop_size (gen_init_args lvl started seed)) false;
     built (gen_LHSDeme_init pop_size (gen_init_args lvl started seed)) false; built (gen_SobolDeme_init pop_size (gen_init_args lvl started seed)) false;
     built (gen_LocalDeme_init (gen_init_args lvl started seed)) true].
Proof.
  intros H. repeat constructor.
  - destruct (EADeme_ctor_ok lvl started seed pop_size H) as (A & _). eauto.
  - destruct (DEDeme_ctor_ok lvl started seed pop_size H) as (A & _). eauto.
  - destruct (SHADEDeme_ctor_ok lvl started seed pop_size H) as (A & _). eauto.
  - destruct (CMADeme_ctor_ok lvl started seed pop_size) as (A & _). eauto.
  - destruct (LHSDeme_ctor_ok lvl started seed pop_size) as (A & _). eauto.
  - destruct (SobolDeme_ctor_ok lvl started seed pop_size) as (A & _). eauto.
  - destruct (LocalDeme_ctor_ok lvl started seed) as (A & _). eauto.
Qed.
Print Assumptions C18_translated_ctor_awake.
