(* Props/C12.v — elitist engines never lose ground; population size is constant.  Pure theorems on fitness keys: ALL
   populations, tie patterns, both directions, ANY valid argsort permutation (unstable sorts included). *)
From Coq Require Import ZArith List Bool Arith Permutation Sorting Lia.
From HV Require Import Ord ListX Select SelectFacts.
From HV Require Import GenPop GenEquivPop.
Import ListNotations.
Local Open Scope Z_scope.

(* Population.topk: exactly min(k, n) individuals, a sub-multiset, none of the dropped strictly better than a kept one *)
Theorem C12_topk mx k fs order : is_argsort fs order ->
  length (topk mx k fs order) = Nat.min k (length fs) /\
  exists dropped, Permutation fs (topk mx k fs order ++ dropped) /\
                  forall a d, In a (topk mx k fs order) -> In d dropped -> better mx d a = false.
Proof. exact (topk_spec mx k fs order). Qed.
Print Assumptions C12_topk.

(* SEA family, k_elites >= 1: the new generation has the parents' size and contains an individual no parent is better than *)
Theorem C12_sea_elitist mx k_elites parents offspring order1 order2 :
  (1 <= k_elites)%nat -> parents <> [] -> length offspring = length parents ->
  is_argsort parents order1 -> is_argsort (offspring ++ topk mx k_elites parents order1) order2 ->
  let out := sea_select mx k_elites parents offspring order1 order2 in
  length out = length parents /\ exists o, In o out /\ forall p, In p parents -> better mx p o = false.
Proof. exact (sea_elitist mx k_elites parents offspring order1 order2). Qed.
Print Assumptions C12_sea_elitist.

(* DE / SHADE: same size; every survivor is a trial or a parent; for every threshold at least as many individuals are that
   good afterwards; equivalently the k-th best never gets worse, for every k *)
Theorem C12_de_size mx ts ps : length ts = length ps -> length (de_select mx ts ps) = length ps.
Proof. exact (de_select_length mx ts ps). Qed.
Print Assumptions C12_de_size.
Theorem C12_de_members mx ts ps x : length ts = length ps -> In x (de_select mx ts ps) -> In x ts \/ In x ps.
Proof. exact (de_select_members mx ts ps x). Qed.
Print Assumptions C12_de_members.
Theorem C12_de_no_rank_gets_worse mx ts ps v : length ts = length ps ->
  (count_le v (map (good mx) ps) <= count_le v (map (good mx) (de_select mx ts ps)))%nat.
Proof. exact (de_no_rank_gets_worse mx ts ps v). Qed.
Print Assumptions C12_de_no_rank_gets_worse.
Theorem C12_de_kth_best_never_worse mx ts ps k : length ts = length ps -> (k < length ps)%nat ->
  nth k (sort_good (map (good mx) (de_select mx ts ps))) 0 <= nth k (sort_good (map (good mx) ps)) 0.
Proof. exact (de_kth_best_never_worse mx ts ps k). Qed.
Print Assumptions C12_de_kth_best_never_worse.

(* MWEA: size // k + 1 elections of k >= 1 winners, then top-k(size): exactly the population size again *)
Theorem C12_mwea_keeps_size size k : (1 <= k)%nat -> mwea_size size k = size.
Proof. exact (mwea_keeps_size size k). Qed.
Print Assumptions C12_mwea_keeps_size.

Example C12_example :
  de_select true [5; 1; 7] [5; 2; 9] = [5; 2; 9] /\ de_select false [5; 1; 7] [5; 2; 9] = [5; 1; 7] /\
  topk true 2 [4; 9; 4; 1] [3; 0; 2; 1]%nat = [4; 9] /\ is_argsort [4; 9; 4; 1] [3; 0; 2; 1]%nat.
Proof.
  repeat split; try reflexivity.
  - apply Permutation_cons_app with (l1 := [0%nat; 1%nat; 2%nat]) (l2 := []). simpl.
    apply perm_skip. apply Permutation_cons_app with (l1 := [1%nat]) (l2 := []). simpl. apply Permutation_refl.
  - simpl. repeat constructor; unfold at_; simpl; lia.
Qed.

(* ---------------------------------------------------------------- the numpy code of selection TRANSLATED from the current
   pyhms/core/population.py, sea.py and de.py (Gen/GenPop.v; a population = two aligned lists, np.argsort = any oracle permutation):
   on the fitness keys it IS the selection model of the theorems above, and genomes travel with their fitness (rows stay together) *)
Local Close Scope Z_scope.
Theorem C12_translated_topk {G} (gdef : G) mx (p : pop (G:=G)) k order : aligned p -> pf (gen_topk gdef mx p k order) = topk mx k (pf p) order.
Proof. exact (topk_fits gdef mx p k order). Qed.
Print Assumptions C12_translated_topk.
Theorem C12_translated_select_new_population {G} (gdef : G) mx k_elites (parents offspring : pop (G:=G)) o1 o2 : aligned parents -> aligned offspring ->
  pf (gen_select_new_population gdef mx k_elites parents offspring o1 o2) = sea_select mx k_elites (pf parents) (pf offspring) o1 o2.
Proof. exact (select_new_population_fits gdef mx k_elites parents offspring o1 o2). Qed.
Print Assumptions C12_translated_select_new_population.
Theorem C12_translated_DE_replacement {G} mx (trial parents : pop (G:=G)) : pf (gen_DE_result mx trial parents) = de_select mx (pf trial) (pf parents).
Proof. exact (DE_result_fits mx trial parents). Qed.
Print Assumptions C12_translated_DE_replacement.
Theorem C12_translated_SHADE_replacement {G} mx (trial parents : pop (G:=G)) : pf (gen_SHADE_result mx trial parents) = de_select mx (pf trial) (pf parents).
Proof. exact (SHADE_result_fits mx trial parents). Qed.
Print Assumptions C12_translated_SHADE_replacement.
Theorem C12_translated_rows_stay_together {G} mx (trial parents : pop (G:=G)) : aligned trial ->
  rows_of (gen_DE_result mx trial parents) =
  pick (de_mask mx (pf trial) (pf parents)) (rows_of trial) ++ pick (map negb (de_mask mx (pf trial) (pf parents))) (rows_of parents).
Proof. exact (DE_result_rows mx trial parents). Qed.
Print Assumptions C12_translated_rows_stay_together.

(* the engines' run(): the population whose best k_elites survive is the one made of the parents the deme handed in (translated data flow of
   BaseSEA.run — inherited by SEA, SEAWithCrossover, GAStyleSEA — and SEAWithAdaptiveMutation.run) *)
Theorem C12_translated_BaseSEA_run {G} (gdef : G) mx k_elites pipeline (parents : pop (G:=G)) o1 o2 : aligned parents -> aligned (pipeline parents) ->
  pf (gen_BaseSEA_run gdef mx k_elites pipeline parents o1 o2) = sea_select mx k_elites (pf parents) (pf (pipeline parents)) o1 o2.
Proof. exact (BaseSEA_run_fits gdef mx k_elites pipeline parents o1 o2). Qed.
Print Assumptions C12_translated_BaseSEA_run.
Theorem C12_translated_SEAWithAdaptiveMutation_run {G} (gdef : G) mx k_elites pipeline (parents : pop (G:=G)) o1 o2 : aligned parents -> aligned (pipeline parents) ->
  pf (gen_SEAWithAdaptiveMutation_run gdef mx k_elites pipeline parents o1 o2) = sea_select mx k_elites (pf parents) (pf (pipeline parents)) o1 o2.
Proof. exact (SEAWithAdaptiveMutation_run_fits gdef mx k_elites pipeline parents o1 o2). Qed.
Print Assumptions C12_translated_SEAWithAdaptiveMutation_run.

(* TournamentSelection (translated numpy code; the draw of the tournaments is an oracle): the selected population has one row per tournament
   (constant size), every row is a row of the population it was given, and a tournament of two is won by its first best entry in the
   problem's direction *)
Theorem C12_translated_tournament {G} (gdef : G) mx (p : pop (G:=G)) tour : aligned p ->
  rows_of (gen_TournamentSelection_call gdef mx p tour) = map (fun i => nth i (rows_of p) (gdef, 0%Z)) (tour_winners mx (pf p) tour) /\
  length (pf (gen_TournamentSelection_call gdef mx p tour)) = length tour.
Proof. intros A. exact (conj (tournament_rows gdef mx p tour A) (tournament_size gdef mx p tour)). Qed.
Print Assumptions C12_translated_tournament.
Theorem C12_translated_tournament_pair mx fs j0 j1 :
  nth (first_arg mx (take_idx 0%Z fs [j0; j1])) [j0; j1] O = nth (tournament_pick mx (nth j0 fs 0%Z) (nth j1 fs 0%Z)) [j0; j1] O.
Proof. exact (tournament_pair mx fs j0 j1). Qed.
Print Assumptions C12_translated_tournament_pair.

(* DE.run / SHADE.run as a whole (translated data flow; mutation, crossover and evaluate are abstract stages): the one-to-one replacement
   compares the PARENTS handed in with the trial made from those same parents *)
Theorem C12_translated_DE_run {G} (mutation : pop (G:=G) -> pop) crossover evaluate mx (parents : pop (G:=G)) :
  pf (gen_DE_run mutation crossover evaluate mx parents) = de_select mx (pf (evaluate (crossover parents (mutation parents)))) (pf parents) /\
  pf (gen_SHADE_run mutation crossover evaluate mx parents) = de_select mx (pf (evaluate (crossover parents (mutation parents)))) (pf parents).
Proof. exact (conj (DE_run_fits mutation crossover evaluate mx parents) (SHADE_run_fits mutation crossover evaluate mx parents)). Qed.
Print Assumptions C12_translated_DE_run.
