(* Props/C05.v — run() stops exactly at the global stop condition, with a bounded wind-down.  Every accepted run of the
   HMS machine, any configuration, any length. *)
From Coq Require Import List Bool Arith ZArith.
From HV Require Import Ord Sprout Tree TreeLemmas TreeInv TreeRun.
From HV Require Import DriverPrim Driver DriverFacts GenDriver GenEquivDriver DriverCode GenStops GenEquivStops.
From HV Require Import Minimize GenMinimize GenEquivMinimize.
From HV Require GenStopsPrecision GenEquivStopsPrecision.
Import ListNotations.

(* the run ends only through a TRUE consult at a metaepoch boundary, and nothing happens afterwards *)
Theorem C05_ends_only_at_boundary c s e s' : step c s e = Some s' -> pc s' = PDone -> pc s = PMain /\ e = EGsc true.
Proof. exact (done_only_at_boundary c s e s'). Qed.
Print Assumptions C05_ends_only_at_boundary.
Theorem C05_nothing_after_end c s e : pc s = PDone -> step c s e = None.
Proof. exact (done_is_final c s e). Qed.
Print Assumptions C05_nothing_after_end.

(* a metaepoch starts only after a FALSE consult at the boundary; the verdict agrees with the configured condition
   wherever the model computes it (counters, flags); a true verdict returns without touching the tree *)
Theorem C05_boundary_consult c s s' v : pc s = PMain -> step c s (EGsc v) = Some s' ->
  consistent (gsc_eval (gsc c) (height c) s) v = true /\
  (v = true -> pc s' = PDone /\ mcount s' = mcount s /\ demes s' = demes s) /\
  (v = false -> mcount s' = S (mcount s)).
Proof. exact (main_step_false c s s' v). Qed.
Print Assumptions C05_boundary_consult.

(* at the end: the condition was observed, it holds in the final state, the counter equals the number of metaepochs
   performed, nothing was sprouted after the first observation, no deme did more than one further engine iteration *)
Theorem C05_run_end c n0 evs s : 1 <= height c -> run c (init n0) evs = Some s -> pc s = PDone ->
  seen s = true /\ steps s = mcount s /\ born_after_seen s = 0 /\ (forall i, i < length (demes s) -> d_after (dnth i (demes s)) <= 1) /\
  consistent (gsc_eval (gsc c) (height c) s) true = true.
Proof. exact (run_end_spec c n0 evs s). Qed.
Print Assumptions C05_run_end.

(* ... and at EVERY moment of the run, not only at its end *)
Theorem C05_wind_down_always c n0 s : 1 <= height c -> reach c n0 s ->
  steps s = mcount s /\ born_after_seen s = 0 /\
  (seen s = false -> forall i, i < length (demes s) -> d_after (dnth i (demes s)) = 0) /\
  (seen s = true -> (forall i, i < length (demes s) -> d_after (dnth i (demes s)) <= 1) /\ pc s <> PSprout).
Proof.
  intros H R. destruct (reach_INV c n0 s H R) as (_ & _ & _ & _ & _ & (W1 & W2 & W3 & W4) & _).
  repeat split; auto. - apply W4; assumption. - intros E. destruct (W4 H0) as (_ & X). rewrite E in X. exact X.
Qed.
Print Assumptions C05_wind_down_always.

Theorem C05_metaepoch_limit_exact c n0 n evs s : gsc c = GMetaLimit n -> run c (init n0) evs = Some s -> pc s = PDone -> mcount s = n.
Proof. exact (metaepoch_limit_exact c n0 n evs s). Qed.
Print Assumptions C05_metaepoch_limit_exact.
Theorem C05_dont_run_zero c n0 evs s : gsc c = GDontRun -> run c (init n0) evs = Some s -> mcount s = 0 /\ (evs = [] \/ evs = [EGsc true]).
Proof. exact (dont_run_zero c n0 evs s). Qed.
Print Assumptions C05_dont_run_zero.

Example C05_example : exists s, ex_final = Some s /\ pc s = PDone /\ seen s = true /\ mcount s = 3 /\ born_after_seen s = 0.
Proof. vm_compute. eexists. split; [reflexivity|]. repeat split. Qed.

(* a wind-down that is actually exercised: the condition (an evaluation budget) turns true inside the metaepoch of deme 2;
   deme 1 and the root, still active, each perform exactly one further generation, see the condition and stop; no sprouting *)
Definition wd_cfg : cfg :=
  {| height := 2; kinds := [KPop; KPop]; ngens := [3; 3]; lscs := [LDontStop; LDontStop]; gsc := GEvalLimit 60 [1; 1];
     hib_on := false; level_lim := Some 2; maximize := true |}.
Definition wd_events : list event :=
  [ EGsc false; EGen 5; EGsc false; EGen 5; EGsc false; EGen 5; EGsc false; ELsc false; EGsc false;
    ESprout [(0, [5; 3; 9]%Z)] [[true; true]] [6; 6];
    EGsc false;
    EGen 9; EGsc false; EGen 9; EGsc false; EGen 9; EGsc true;      (* deme 2: 37+27 = 64 >= 60 *)
    EGen 4; EGsc true;                          (* deme 1: one further generation *)
    EGen 5; EGsc true;                          (* root: one further generation *)
    EGsc true; EGsc true ].
Example C05_wind_down_example : exists s, run wd_cfg (init 10) wd_events = Some s /\ pc s = PDone /\ map d_after (demes s) = [1; 1; 0] /\
  map d_active (demes s) = [false; false; false] /\ mcount s = 2 /\ length (demes s) = 3.
Proof. vm_compute. eexists. split; [reflexivity|]. repeat split. Qed.

(* ---------------------------------------------------------------- the same for the TRANSLATED code.
   Gen/GenDriver.v is regenerated from /repo's current pyhms/tree.py (run, run_step, run_metaepoch, run_sprout, _do_sprout, active_demes,
   active_non_leaves) and the run_metaepoch methods of EADeme, DEDeme, SHADEDeme, CMADeme, LocalDeme, LHSDeme, SobolDeme on every check;
   `code_moment c fuel n evs s`: s is a state the translated run() passes through on the event stream evs. *)
Theorem C05_translated_run_is_an_accepted_run c fuel s evs s' rest :
  gens_ok c -> pc s = PMain -> exec (gen_tree_run c fuel) s evs = Some (tt, s', rest) ->
  exists used s'', evs = used ++ rest /\ run c s used = Some s'' /\ pc s'' = PDone /\ set_pc s'' PMain = set_pc s' PMain.
Proof. exact (code_run_refines c fuel s evs s' rest). Qed.
Print Assumptions C05_translated_run_is_an_accepted_run.
Theorem C05_translated_run_end c fuel n evs s' rest :
  gens_ok c -> 1 <= height c -> exec (gen_tree_run c fuel) (init n) evs = Some (tt, s', rest) ->
  seen s' = true /\ steps s' = mcount s' /\ born_after_seen s' = 0 /\ (forall i, i < length (demes s') -> d_after (dnth i (demes s')) <= 1).
Proof. exact (code_run_end c fuel n evs s' rest). Qed.
Print Assumptions C05_translated_run_end.
Theorem C05_translated_wind_down_always c fuel n evs s : 1 <= height c -> code_moment c fuel n evs s -> WD s.
Proof. exact (code_moment_wind_down c fuel n evs s). Qed.
Print Assumptions C05_translated_wind_down_always.
(* the translated run() really runs: the wind-down example above, executed by the code-derived program *)
Example C05_translated_example : exists s, exec (gen_tree_run wd_cfg 10) (init 10) wd_events = Some (tt, s, []) /\ map d_after (demes s) = [1; 1; 0] /\
  map d_active (demes s) = [false; false; false] /\ mcount s = 2 /\ length (demes s) = 3 /\ gens_ok wd_cfg.
Proof. vm_compute. eexists. split; [reflexivity|]. repeat split. intros lv. unfold gens_of, wd_cfg. cbn. destruct lv as [|[|[|lv]]]; cbn; auto. Qed.

(* ---------------------------------------------------------------- the shipped global stop conditions, TRANSLATED from the current
   pyhms/stop_conditions/gsc.py and usc.py (Gen/GenStops.v): in every state whose demes sit on configured levels (every reachable state:
   WFT_levels_ok) each of them only looks (state and event stream untouched) and answers exactly what the machine takes as its verdict *)
Theorem C05_translated_RootStopped c fuel s : exists b, answers (gen_RootStopped c fuel) s b /\ gsc_eval GRootStopped (height c) (ms s) = Some b.
Proof. exact (RootStopped_ok c fuel s). Qed.
Print Assumptions C05_translated_RootStopped.
Theorem C05_translated_AllStopped c fuel s : levels_ok c (demes (ms s)) ->
  exists b, answers (gen_AllStopped c fuel) s b /\ gsc_eval GAllStopped (height c) (ms s) = Some b.
Proof. exact (AllStopped_ok c fuel s). Qed.
Print Assumptions C05_translated_AllStopped.
Theorem C05_translated_SingularProblemEvalLimitReached c fuel limit ws s :
  levels_ok c (demes (ms s)) -> (forall d, In d (demes (ms s)) -> nth (d_lvl d) ws 0 = 1) ->
  exists b, answers (gen_SingularProblemEvalLimitReached c fuel limit) s b /\ gsc_eval (GEvalLimit limit ws) (height c) (ms s) = Some b.
Proof. exact (SingularProblemEvalLimitReached_ok c fuel limit ws s). Qed.
Print Assumptions C05_translated_SingularProblemEvalLimitReached.
Theorem C05_translated_FitnessEvalLimitReached c fuel limit ws s : levels_ok c (demes (ms s)) ->
  exists b, answers (gen_FitnessEvalLimitReached c fuel limit ws) s b /\ gsc_eval (GEvalLimit limit ws) (height c) (ms s) = Some b.
Proof. exact (FitnessEvalLimitReached_ok c fuel limit ws s). Qed.
Print Assumptions C05_translated_FitnessEvalLimitReached.
(* "evaluation limits with any weighting": what FitnessEvalLimitReached makes of its `weights` argument (None, a strategy name, a list) — the translated
   _transform_weights under the translated guard of __call__, with the translated number of levels — is the list the machine's limit is configured with *)
Theorem C05_translated_weights_normalisation c w : 0 < height c -> w_as_list (gen_effective_weights c w) = weights_of (height c) w.
Proof. exact (effective_weights_ok c w). Qed.
Print Assumptions C05_translated_weights_normalisation.
Theorem C05_translated_weights_normalised_once c c' w ws : w_as_list (gen_effective_weights c w) = Some ws ->
  gen_effective_weights c' (WList ws) = Some (WList ws).
Proof. exact (effective_weights_idem c c' w ws). Qed.
Print Assumptions C05_translated_weights_normalised_once.
Theorem C05_translated_FitnessEvalLimitReached_any_weighting c fuel limit w ws s : levels_ok c (demes (ms s)) -> 0 < height c ->
  w_as_list (gen_effective_weights c w) = Some ws ->
  exists b, answers (gen_FitnessEvalLimitReached c fuel limit ws) s b /\
            gsc_eval (GEvalLimit limit (weights_or_nil (height c) w)) (height c) (ms s) = Some b.
Proof. exact (FitnessEvalLimitReached_spec_ok c fuel limit w ws s). Qed.
Print Assumptions C05_translated_FitnessEvalLimitReached_any_weighting.
Theorem C05_equal_weighting_is_the_total c limit w s : levels_ok c (demes (ms s)) -> w = WEqual \/ w = WNone ->
  gsc_eval (GEvalLimit limit (weights_or_nil (height c) w)) (height c) (ms s) = Some (limit <=? total_evals (demes (ms s))).
Proof. exact (equal_weights_total c limit w s). Qed.
Print Assumptions C05_equal_weighting_is_the_total.
Theorem C05_root_weighting_counts_the_root_level_only c limit s : 0 < height c ->
  gsc_eval (GEvalLimit limit (weights_or_nil (height c) WRoot)) (height c) (ms s)
  = Some (limit <=? fold_right (fun d a => (if Nat.eqb (d_lvl d) 0 then d_evals d else 0) + a) 0 (demes (ms s))).
Proof. exact (root_weights_root_only c limit s). Qed.
Print Assumptions C05_root_weighting_counts_the_root_level_only.
Example C05_weights_examples : weights_of 3 WRoot = Some [1; 0; 0] /\ weights_of 3 WNone = Some [1; 1; 1] /\ weights_of 2 (WList [2; 3]) = Some [2; 3] /\ weights_of 3 WOtherStr = None.
Proof. repeat split. Qed.
(* "precision reached": the translated SingularProblemPrecisionReached answers the flag of the precision wrapper it was constructed with; with the wrapper
   model of Model/Problem.v (C16): after the wrapper forwarded the values vs it holds exactly when it held before or one of vs is within the precision, and it latches *)
Theorem C05_translated_SingularProblemPrecisionReached vs w :
  GenStopsPrecision.gen_SingularProblemPrecisionReached (fold_left (Problem.local Problem.KPrecision) vs w)
  = GenStopsPrecision.gen_SingularProblemPrecisionReached w || existsb (Problem.prec_test w) vs.
Proof. exact (GenEquivStopsPrecision.SingularProblemPrecisionReached_after vs w). Qed.
Print Assumptions C05_translated_SingularProblemPrecisionReached.
Theorem C05_translated_SingularProblemPrecisionReached_latches vs w :
  GenStopsPrecision.gen_SingularProblemPrecisionReached w = true ->
  GenStopsPrecision.gen_SingularProblemPrecisionReached (fold_left (Problem.local Problem.KPrecision) vs w) = true.
Proof. exact (GenEquivStopsPrecision.SingularProblemPrecisionReached_latches vs w). Qed.
Print Assumptions C05_translated_SingularProblemPrecisionReached_latches.
Theorem C05_translated_NoActiveNonrootDemes c fuel n s :
  exists b, answers (gen_NoActiveNonrootDemes c fuel n) s b /\ gsc_eval (GNoActiveNonroot n) (height c) (ms s) = Some b.
Proof. exact (NoActiveNonrootDemes_ok c fuel n s). Qed.
Print Assumptions C05_translated_NoActiveNonrootDemes.
Theorem C05_translated_MetaepochLimit c fuel n s :
  exists b, answers (gen_MetaepochLimit_tree c fuel n) s b /\ gsc_eval (GMetaLimit n) (height c) (ms s) = Some b.
Proof. exact (MetaepochLimit_tree_ok c fuel n s). Qed.
Print Assumptions C05_translated_MetaepochLimit.
Theorem C05_translated_DontRun c fuel s : exists b, answers (gen_DontRun_tree c fuel) s b /\ gsc_eval GDontRun (height c) (ms s) = Some b.
Proof. exact (DontRun_tree_ok c fuel s). Qed.
Print Assumptions C05_translated_DontRun.
Theorem C05_levels_ok_always c s : WFT c s -> levels_ok c (demes s).
Proof. exact (WFT_levels_ok c s). Qed.
Print Assumptions C05_levels_ok_always.

(* ---------------------------------------------------------------- minimize(), TRANSLATED from the current pyhms/hms.py (Gen/GenMinimize.v):
   which wrappers it puts on the problem both levels share, which stop condition it chooses, what it reports *)
Theorem C05_translated_minimize_stop_condition b k maxiter :
  pl_gsc (gen_minimize_plan (Some b) maxiter) = ByEvals b /\ pl_gsc (gen_minimize_plan None (Some k)) = ByMetaepochs (Some k) /\
  exists d, pl_gsc (gen_minimize_plan None None) = ByEvals d /\ (0 < d)%Z.
Proof.
  rewrite plan_with_maxfun, plan_with_maxiter_only. split; [reflexivity|]. split; [reflexivity|].
  destruct plan_default as (d & -> & Hd). exists d. split; [reflexivity|exact Hd].
Qed.
Print Assumptions C05_translated_minimize_stop_condition.
