(* Props/C15.v — nearest-better clustering returns exactly the defined cluster seeds.  The algorithm as coded (candidate prefix
   through Individual.__eq__/index, tie-with-root rule, first arg-min, strict cut) on the best-first sorted truncated population,
   for ALL fitness vectors (any ties), ALL distance matrices, ALL thresholds. *)
From Coq Require Import ZArith List Bool Arith Sorting.
From HV Require Import NBC NBCFacts Ord ListX Select SelectFacts.
From HV Require Import GenNBC GenEquivNBC.
Import ListNotations.
Local Open Scope Z_scope.

(* the edge length the code computes for position i is the distance to its nearest STRICTLY better individual — to the best
   individual only, when i is tied with the best *)
Theorem C15_nearest_better_distance D gs i : StronglySorted Z.le gs -> (0 < i < length gs)%nat ->
  (forall j, cand gs i j -> nbd D gs i <= D i j) /\ exists j, cand gs i j /\ nbd D gs i = D i j.
Proof. exact (nbd_is_nearest_better_distance D gs i). Qed.
Print Assumptions C15_nearest_better_distance.

(* cluster() = the best individual plus exactly the individuals whose nearest-better distance exceeds the threshold *)
Theorem C15_returns_defined_seeds D gs thr i : In i (nbc D gs thr) <-> i = O \/ ((0 < i < length gs)%nat /\ thr < nbd D gs i).
Proof. exact (nbc_returns_defined_seeds D gs thr i). Qed.
Print Assumptions C15_returns_defined_seeds.
Theorem C15_subset_no_duplicates D gs thr : NoDup (nbc D gs thr) /\ ((1 <= length gs)%nat -> forall i, In i (nbc D gs thr) -> (i < length gs)%nat).
Proof. split; [exact (nbc_no_duplicates D gs thr)|intros L i; exact (nbc_subset D gs thr i L)]. Qed.
Print Assumptions C15_subset_no_duplicates.

(* invariances: the result depends on the population only through the sorted goodness vector and the distance matrix — the
   best-first order of pairwise distinct fitness values is unique (input order is irrelevant), goodness is direction-free
   (good true k = good false (-k)), translation leaves the matrix unchanged, uniform scaling scales matrix and threshold *)
Theorem C15_sorted_order_unique (l1 l2 : list Z) : StronglySorted Z.le l1 -> StronglySorted Z.le l2 -> Permutation.Permutation l1 l2 -> l1 = l2.
Proof. exact (sorted_perm_eq l1 l2). Qed.
Print Assumptions C15_sorted_order_unique.
Theorem C15_direction_free k : good true k = good false (- k).
Proof. reflexivity. Qed.
Theorem C15_translation D D' gs thr : (forall i j, D i j = D' i j) -> nbc D gs thr = nbc D' gs thr.
Proof. exact (nbc_ext D D' gs thr). Qed.
Print Assumptions C15_translation.
Theorem C15_scaling D c gs thr : 0 < c -> nbc (fun i j => c * D i j) gs (c * thr) = nbc D gs thr.
Proof. exact (nbc_scale D c gs thr). Qed.
Print Assumptions C15_scaling.

(* non-vacuity: five individuals on a line, two of them tied with the best; threshold 2 *)
Example C15_example :
  let D (i j : nat) := Z.abs (nth i [0; 10; 1; 11; 5] 0 - nth j [0; 10; 1; 11; 5] 0) in
  nbc D [1; 1; 2; 3; 3] 2 = [0; 1; 4]%nat /\ map (nbd D [1; 1; 2; 3; 3]) [1; 2; 3; 4]%nat = [10; 1; 1; 4].
Proof. vm_compute. split; reflexivity. Qed.

(* ---------------------------------------------------------------- the same for the TRANSLATED code: Gen/GenNBC.v is regenerated on every
   check from NearestBetterClustering.__init__ / cluster / distances / _prepare_spanning_tree / _find_nearest_better / _find_root_nodes
   (hv/translate/nbc_py.py) and IS the model of the theorems above *)
Theorem C15_translated_cluster D gs thr : gen_cluster D gs thr = nbc D gs thr.
Proof. exact (gen_cluster_eq D gs thr). Qed.
Print Assumptions C15_translated_cluster.
Theorem C15_translated_edges_and_parents D gs i : gen_edge D gs i = nbd D gs i /\ gen_parent D gs i = parent D gs i /\ gen_ncand gs i = ncand gs i.
Proof. exact (conj (gen_edge_eq D gs i) (conj (gen_parent_eq D gs i) (gen_ncand_eq gs i))). Qed.
Print Assumptions C15_translated_edges_and_parents.
Theorem C15_translated_returns_defined_seeds D gs thr i : In i (gen_cluster D gs thr) <-> i = O \/ ((0 < i < length gs)%nat /\ thr < gen_edge D gs i).
Proof. rewrite gen_cluster_eq, gen_edge_eq. exact (C15_returns_defined_seeds D gs thr i). Qed.
Print Assumptions C15_translated_returns_defined_seeds.
