(* Props/C09.v — sprouts keep their distance from existing demes; centroids are current. *)
From Coq Require Import ZArith List Bool Arith.
From HV Require Import Far FarFacts.
From HV Require Import Sprout Tree DriverPrim SproutPrim GenEquivStops GenFar FilterDict GenEquivFar.
From HV Require GenAccessors GenEquivAccessors.
Import ListNotations.

(* a deme's centroid is the mean of its CURRENT population: after every recorded generation it is the mean of that generation
   (no memoised value survives — the pinned tree's defect D3) *)
Theorem C09_centroid_is_current {G M} (mean : list G -> M) (history : list (list G)) (g : list G) : centroid mean (history ++ [g]) = mean g.
Proof. exact (centroid_is_current mean history g). Qed.
Print Assumptions C09_centroid_is_current.

(* FarEnough / NBC_FarEnough, for any distance function, any candidates, any demes on the target level: a candidate survives iff
   it is strictly farther than the threshold from the centroid of EVERY considered deme (active ones; all of them when
   check_only_active is false) *)
Theorem C09_far_enough {Cand Sib} (dist : Cand -> Sib -> Z) (active : Sib -> bool) only_active thr level_below cands c :
  In c (far_filter dist active only_active thr level_below cands) <->
  In c cands /\ forall s, In s level_below -> (active s = true \/ only_active = false) -> (thr < dist c s)%Z.
Proof. exact (far_filter_spec dist active only_active thr level_below cands c). Qed.
Print Assumptions C09_far_enough.

Example C09_example :
  far_filter (fun c s => Z.abs (c - s))%Z (fun s => negb (Z.eqb s 10)) true 2 [0; 10; 20]%Z [1; 5; 11; 30]%Z = [5; 11; 30]%Z /\
  far_filter (fun c s => Z.abs (c - s))%Z (fun s => negb (Z.eqb s 10)) false 2 [0; 10; 20]%Z [1; 5; 11; 30]%Z = [5; 30]%Z /\
  centroid (fun g => fold_right Z.add 0 g)%Z [[1; 2]; [3; 4]; [10; 20]]%Z = 30%Z.
Proof. vm_compute. repeat split. Qed.

(* ---------------------------------------------------------------- FarEnough and NBC_FarEnough TRANSLATED from the current
   pyhms/sprout/sprout_filters.py (Gen/GenFilters.v; the numbers numpy computes — norms, the per-parent NBC threshold, "has a centroid" —
   are oracles): per parent they ARE the model far_filter against the demes of the level below in the CURRENT state, active ones (or all) *)
Theorem C09_translated_FarEnough (dist : Z -> nat -> Z) c fuel thr cm s : NoDup (cm_keys cm) ->
  answers (gen_FarEnough dist c fuel thr cm) s
          (map (fun pk => (fst pk, far_filter dist (act_of (demes (ms s))) true thr (level_ids (demes (ms s)) (lvl_at (demes (ms s)) (fst pk) + 1)) (snd pk))) cm).
Proof. exact (FarEnough_ok dist c fuel thr cm s). Qed.
Print Assumptions C09_translated_FarEnough.
Theorem C09_translated_NBC_FarEnough (dist : Z -> nat -> Z) has_centroid nbc_thr c fuel only_active cm s : NoDup (cm_keys cm) ->
  answers (gen_NBC_FarEnough dist has_centroid nbc_thr c fuel only_active cm) s
          (map (fun pk => (fst pk, far_filter (dist_or dist has_centroid nbc_thr (fst pk)) (act_of (demes (ms s))) only_active (nbc_thr (fst pk))
                                             (level_ids (demes (ms s)) (lvl_at (demes (ms s)) (fst pk) + 1)) (snd pk))) cm).
Proof. exact (NBC_FarEnough_ok dist has_centroid nbc_thr c fuel only_active cm s). Qed.
Print Assumptions C09_translated_NBC_FarEnough.
Theorem C09_translated_FarEnough_sound (dist : Z -> nat -> Z) c fuel thr cm s out p ks k sib :
  NoDup (cm_keys cm) -> (forall evs, gen_FarEnough dist c fuel thr cm s evs = Some (out, s, evs)) -> In (p, ks) out -> In k ks ->
  In sib (level_ids (demes (ms s)) (lvl_at (demes (ms s)) p + 1)) -> d_active (dnth sib (demes (ms s))) = true -> (thr < dist k sib)%Z.
Proof. exact (FarEnough_sound dist c fuel thr cm s out p ks k sib). Qed.
Print Assumptions C09_translated_FarEnough_sound.

(* AbstractDeme.centroid, translated from the current abstract_deme.py (Gen/GenAccessors.v): the mean genome of the generation stored LAST,
   recomputed from the history on every read (compute_centroid: np.mean of the genomes, None for an empty population) *)
Theorem C09_translated_centroid_is_current {M} (mean : list Z -> M) mx h g : GenAccessors.gen_deme_centroid mean mx (h ++ [[g]]) = mean g.
Proof. exact (GenEquivAccessors.gen_deme_centroid_current mean mx h g). Qed.
Print Assumptions C09_translated_centroid_is_current.
