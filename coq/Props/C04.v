(* Props/C04.v — the reported best is the true best of everything kept, and never gets worse. *)
From Coq Require Import ZArith Bool List Lia.
From HV Require Import Ord Select SelectFacts Hist HistFacts.
From HV Require Import GenAccessors GenEquivAccessors.
From HV Require GenOrder GenEquivOrder F64 WMonad.
Import ListNotations.

(* python's max over the kept individuals: a member, no member strictly better in the problem's direction (first of the ties) *)
Theorem C04_best_is_member_and_best mx ks b : best_of mx ks = Some b -> In b ks /\ forall x, In x ks -> better mx x b = false.
Proof. exact (best_of_spec mx ks b). Qed.
Print Assumptions C04_best_is_member_and_best.
(* the tree's best is at least as good as every individual of every deme's history, and is one of them *)
Theorem C04_tree_best mx s b : best_of mx (tree_fits s) = Some b ->
  In b (tree_fits s) /\ forall d hd x, nth_error (hdemes s) d = Some hd -> In x (deme_fits hd) -> better mx x b = false.
Proof. exact (tree_best_is_best mx s b). Qed.
Print Assumptions C04_tree_best.
(* over any number of further events (histories only grow) neither a deme's best nor the tree's best gets worse *)
Theorem C04_deme_best_never_worse mx evs s s' d hd hd' b b' : hrun s evs = Some s' -> nth_error (hdemes s) d = Some hd -> nth_error (hdemes s') d = Some hd' ->
  best_of mx (deme_fits hd) = Some b -> best_of mx (deme_fits hd') = Some b' -> better mx b b' = false.
Proof. exact (deme_best_never_worse mx evs s s' d hd hd' b b'). Qed.
Print Assumptions C04_deme_best_never_worse.
Theorem C04_tree_best_never_worse mx evs s s' b b' : hrun s evs = Some s' ->
  best_of mx (tree_fits s) = Some b -> best_of mx (tree_fits s') = Some b' -> better mx b b' = false.
Proof. exact (tree_best_never_worse mx evs s s' b b'). Qed.
Print Assumptions C04_tree_best_never_worse.

(* every evaluated value is stored or dominated by a stored one, engine by engine (so the best equals the best ever observed):
   SEA — what top-k drops is not better than what it keeps; DE/SHADE — a rejected trial is not better than its parent, which stays *)
Theorem C04_topk_keeps_the_best mx k fs order : is_argsort fs order ->
  exists dropped, Permutation.Permutation fs (topk mx k fs order ++ dropped) /\
                  forall a d, In a (topk mx k fs order) -> In d dropped -> better mx d a = false.
Proof. intros A. exact (proj2 (topk_spec mx k fs order A)). Qed.
Print Assumptions C04_topk_keeps_the_best.
Theorem C04_de_rejected_trial_not_better mx t p : de_take mx t p = false -> better mx t p = false.
Proof. unfold de_take, better. destruct mx; simpl; intros H; apply Z.leb_gt in H; apply Z.ltb_ge; lia. Qed.
Print Assumptions C04_de_rejected_trial_not_better.

(* budgets: the calls forwarded under a cutoff N1 are a prefix of those forwarded under N2 >= N1 for the same request sequence *)
Theorem C04_budget_prefix {A} (reqs : list A) n1 n2 : n1 <= n2 -> firstn n1 reqs = firstn n1 (firstn n2 reqs).
Proof. intros H. rewrite firstn_firstn. now rewrite Nat.min_l. Qed.

Example C04_example : best_of false [5; 3; 9; 3]%Z = Some 3%Z /\ best_of true [5; 3; 9; 3]%Z = Some 9%Z.
Proof. split; reflexivity. Qed.

(* ---------------------------------------------------------------- the accessors TRANSLATED from the current
   pyhms/demes/abstract_deme.py and pyhms/tree.py (Gen/GenAccessors.v): h = a deme's stored history (metaepochs -> generations -> fitness keys),
   lv = the tree's levels of such histories.  python's max() on Individuals is best_of (first maximal element). *)
Theorem C04_translated_deme_best mx h : gen_deme_best_individual mx h = best_of mx (concat (concat h)).
Proof. exact (gen_deme_best_individual_eq mx h). Qed.
Print Assumptions C04_translated_deme_best.
Theorem C04_translated_deme_current_best mx h : gen_deme_best_current_individual mx h = best_of mx (last (concat h) []).
Proof. exact (gen_deme_best_current_individual_eq mx h). Qed.
Print Assumptions C04_translated_deme_current_best.
Theorem C04_translated_deme_best_is_member_and_best mx h b : gen_deme_best_individual mx h = Some b ->
  In b (concat (concat h)) /\ forall x, In x (concat (concat h)) -> better mx x b = false.
Proof. exact (deme_best_is_member_and_best mx h b). Qed.
Print Assumptions C04_translated_deme_best_is_member_and_best.
(* DemeTree.best_individual, computed by the code as the best of the demes' bests, is a stored individual of some deme and no stored
   individual of any deme is strictly better *)
Theorem C04_translated_tree_best mx lv b : gen_tree_best_individual mx lv = Some b ->
  (exists h, In h (all_demes_of lv) /\ In b (concat (concat h))) /\
  (forall h x, In h (all_demes_of lv) -> In x (concat (concat h)) -> better mx x b = false).
Proof. exact (tree_best_is_member_and_best mx lv b). Qed.
Print Assumptions C04_translated_tree_best.
Example C04_translated_example :
  gen_tree_best_individual false [[ [[[5; 3]; [4; 4]]; [[2; 9]]] ]; [ [[[7]]]; [[[1; 8]]; [[6]]] ]]%Z = Some 1%Z /\
  gen_tree_best_individual true  [[ [[[5; 3]; [4; 4]]; [[2; 9]]] ]; [ [[[7]]]; [[[1; 8]]; [[6]]] ]]%Z = Some 9%Z /\
  gen_deme_best_current_individual false [[[5; 3]; [4; 4]]; [[2; 9]]]%Z = Some 2%Z /\ gen_tree_best_individual false [[]; []] = None.
Proof. vm_compute. repeat split. Qed.

(* ---------------------------------------------------------------- Individual's ordering, TRANSLATED from the current pyhms/core/individual.py
   (Gen/GenOrder.v: @total_ordering over __lt__ = problem.worse_than(fitnesses), __eq__ = problem.equivalent(fitnesses)): the ordering max() uses for the reported best is 'strictly better in the problem's direction' on the fitness alone *)
Theorem C04_translated_individual_gt mx (a b : WMonad.F) : F64.fis_nan a = false -> F64.fis_nan b = false ->
  GenOrder.gen_ind_gt mx a b = if mx then F64.flt b a else F64.fgt b a.
Proof. exact (GenEquivOrder.ind_gt_is_strictly_better mx a b). Qed.
Print Assumptions C04_translated_individual_gt.
Theorem C04_translated_individual_gt_asymmetric mx (a b : WMonad.F) : F64.fis_nan a = false -> F64.fis_nan b = false ->
  GenOrder.gen_ind_gt mx a b = true -> GenOrder.gen_ind_gt mx b a = false.
Proof. exact (GenEquivOrder.ind_gt_asymmetric mx a b). Qed.
Print Assumptions C04_translated_individual_gt_asymmetric.
