(* Props/C16.v — problem wrappers are transparent and their counters follow simple laws.
   Stacks of ANY depth and order, ALL call sequences, both directions, any objective f. *)
From Coq Require Import ZArith List Bool.
From HV Require Import F64 WMonad Problem GenProblem GenEquivProblem ProblemFacts.
Import ListNotations.
Open Scope Z_scope.

(* the tie: evaluating a stack with the evaluate methods regenerated from /repo is the model *)
Theorem C16_model_is_code {G} (f : G -> F) st x b : gen_eval_stack f st x b = eval_stack f st x b.
Proof. exact (gen_eval_stack_eq f st x b). Qed.
Print Assumptions C16_model_is_code.

(* transparency: the value handed back is the objective's, unless a cutoff in the stack is exhausted — then it is the
   direction's worst value and the objective is not invoked; kinds, order and direction of the stack never change *)
Theorem C16_transparent {G} (f : G -> F) st x b :
  let '(v, (st', b')) := eval_stack f st x b in
  map fst st' = map fst st /\ b_max b' = b_max b /\
  ((v = f x /\ b_calls b' = b_calls b ++ [x]) \/
   (v = sentinel (b_max b) /\ b_calls b' = b_calls b /\ exists j k s, nth_error st j = Some (k, s) /\ refuses k s = true)).
Proof. exact (transparent_call f st x b). Qed.
Print Assumptions C16_transparent.

Theorem C16_transparent_seq {G} (f : G -> F) st b xs :
  fst (run_calls f st b xs) = map snd (trace f st b xs) /\
  Forall2 (fun x e => snd e = if Nat.eqb (fst e) (length st) then f x else sentinel (b_max b)) xs (trace f st b xs).
Proof. split; [exact (returned_values f st b xs) | exact (transparent_seq f st b xs)]. Qed.
Print Assumptions C16_transparent_seq.

(* delegation of direction / comparison / bounds and the unwrapping helper, as found in the source *)
Theorem C16_delegation :
  ProblemWrapper_worse_than_delegates = true /\ ProblemWrapper_bounds_delegates = true /\
  ProblemWrapper_maximize_delegates = true /\ wrapper_overrides = nil /\ get_function_problem_unwraps = true.
Proof. exact delegation_intact. Qed.
Print Assumptions C16_delegation.
Theorem C16_worse_than mx a c : FunctionProblem_worse_than mx a c = worse_than mx a c.
Proof. exact (worse_than_eq mx a c). Qed.
Print Assumptions C16_worse_than.

(* every wrapper only ever applies its own local step to the values it forwarded *)
Theorem C16_projection {G} (f : G -> F) st b xs j k s :
  nth_error st j = Some (k, s) ->
  nth_error (fst (final f st b xs)) j = Some (k, fold_left (local k) (map snd (fwd j (trace f st b xs))) s).
Proof. exact (final_nth f st b xs j k s). Qed.
Print Assumptions C16_projection.

(* each counting wrapper counts exactly the calls it forwarded *)
Theorem C16_counter_law k vs s : k <> KWrapper -> n_evals (fold_left (local k) vs s) = n_evals s + Z.of_nat (length vs).
Proof. exact (counter_fold k vs s). Qed.
Print Assumptions C16_counter_law.

(* a cutoff wrapper forwards exactly the first (cutoff - count) calls that reach it *)
Theorem C16_cutoff_law {G} (f : G -> F) st b xs j s :
  nth_error st j = Some (KCutoff, s) ->
  fwd j (trace f st b xs) = firstn (Z.to_nat (eval_cutoff s - n_evals s)) (reached j (trace f st b xs)).
Proof. exact (cutoff_law f st b xs j s). Qed.
Print Assumptions C16_cutoff_law.

(* ... hence the budget is hard for the objective, wherever the cutoff sits in the stack *)
Theorem C16_cutoff_hard {G} (f : G -> F) st b xs j s :
  nth_error st j = Some (KCutoff, s) ->
  (length (b_calls (snd (final f st b xs))) <= length (b_calls b) + Z.to_nat (eval_cutoff s - n_evals s))%nat.
Proof. exact (cutoff_hard f st b xs j s). Qed.
Print Assumptions C16_cutoff_hard.

(* precision: ETA is the 1-based index of the first forwarded value within the precision (test on doubles); sticky *)
Theorem C16_precision_law vs s :
  let s' := fold_left (local KPrecision) vs s in
  hit_precision s' = hit_precision s || existsb (prec_test s) vs /\
  eta s' = if hit_precision s then eta s
           else match first_hit (prec_test s) vs with Some i => Some (n_evals s + Z.of_nat i + 1) | None => eta s end.
Proof. exact (precision_fold vs s). Qed.
Print Assumptions C16_precision_law.

(* non-vacuity: a depth-3 stack (count, cutoff 2, precision(0, 0.5)) over f(i) = i/4, four calls *)
Example C16_example :
  let w n c := {| n_evals := n; eval_cutoff := c; global_optima := fzero false; precision := fhalf; eta := None; hit_precision := false; durations := [] |} in
  let st := [(KCounting, w 0 0); (KCutoff, w 0 2); (KPrecision, w 0 0)] in
  let f (i : Z) := fdiv (of_bits (to_bits (binary_normalize_z i))) (of_bits 0x4010000000000000) in
  map (fun e => fst e) (trace f st {| b_max := false; b_calls := [] |} [8; 1; 0; 0]) = [3%nat; 3%nat; 1%nat; 1%nat].
Proof. vm_compute. reflexivity. Qed.
