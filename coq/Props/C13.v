(* Props/C13.v — maximising f behaves exactly like minimising -f: every comparison-based component, on fitness keys
   (fkey (-x) = - fkey x exactly, Base/F64.v), for ALL populations and tie patterns. *)
From Coq Require Import ZArith List Bool Arith Permutation.
From HV Require Import Ord ListX Sprout SproutFacts Select SelectFacts FilterFacts.
From HV Require GenOrder GenEquivOrder F64 WMonad.
From HV Require GenDirection GenEquivDirection.
Import ListNotations.
Local Open Scope Z_scope.

Theorem C13_ordering a b : better true a b = better false (- a) (- b) /\ worse_than true a b = worse_than false (- a) (- b).
Proof. split; reflexivity. Qed.
Theorem C13_best_individual ks : best_of true ks = option_map Z.opp (best_of false (neg ks)).
Proof. exact (best_of_mirror ks). Qed.
Print Assumptions C13_best_individual.
Theorem C13_tournament a b : tournament_pick true a b = tournament_pick false (- a) (- b).
Proof. exact (tournament_mirror a b). Qed.
(* top-k: the same individuals as a multiset, for any two valid argsorts (the code sorts ONE array ascending and slices the
   other end, so the tie order may differ; the kept multiset may not) *)
Theorem C13_topk k fs o1 o2 : is_argsort fs o1 -> is_argsort (neg fs) o2 -> Permutation (neg (topk true k fs o1)) (topk false k (neg fs) o2).
Proof. exact (topk_mirror k fs o1 o2). Qed.
Print Assumptions C13_topk.
Theorem C13_topk_is_k_best mx k fs order : is_argsort fs order ->
  sort_good (map (good mx) (topk mx k fs order)) = firstn k (sort_good (map (good mx) fs)).
Proof. exact (topk_is_k_best mx k fs order). Qed.
Print Assumptions C13_topk_is_k_best.
(* DE / SHADE replacement: index for index the same survivors *)
Theorem C13_de_replacement ts ps : de_select true ts ps = neg (de_select false (neg ts) (neg ps)).
Proof. exact (de_select_mirror ts ps). Qed.
Print Assumptions C13_de_replacement.
Theorem C13_deme_limit limit ks : deme_limit true limit ks = neg (deme_limit false limit (neg ks)).
Proof. exact (deme_limit_mirror limit ks). Qed.
Print Assumptions C13_deme_limit.
Theorem C13_level_limit L lvl_of act c :
  level_limit true L lvl_of act c
  = map (fun pk => (fst pk, map Z.opp (snd pk))) (level_limit false L lvl_of act (map (fun pk => (fst pk, map Z.opp (snd pk))) c)).
Proof. exact (level_limit_mirror L lvl_of act c). Qed.
Print Assumptions C13_level_limit.

Example C13_example : best_of true [3; 9; 9; 1] = Some 9 /\ best_of false (neg [3; 9; 9; 1]) = Some (-9) /\
  de_select true [5; 1] [5; 2] = [5; 2] /\ de_select false [-5; -1] [-5; -2] = [-5; -2].
Proof. vm_compute. repeat split. Qed.

(* ---------------------------------------------------------------- Individual's ordering, TRANSLATED from the current pyhms/core/individual.py
   (Gen/GenOrder.v: @total_ordering over __lt__ = problem.worse_than(fitnesses), __eq__ = problem.equivalent(fitnesses)): the ordering is the same relation for both directions up to swapping the arguments of < on the fitness *)
Theorem C13_translated_individual_gt mx (a b : WMonad.F) : F64.fis_nan a = false -> F64.fis_nan b = false ->
  GenOrder.gen_ind_gt mx a b = if mx then F64.flt b a else F64.fgt b a.
Proof. exact (GenEquivOrder.ind_gt_is_strictly_better mx a b). Qed.
Print Assumptions C13_translated_individual_gt.
Theorem C13_translated_individual_gt_asymmetric mx (a b : WMonad.F) : F64.fis_nan a = false -> F64.fis_nan b = false ->
  GenOrder.gen_ind_gt mx a b = true -> GenOrder.gen_ind_gt mx b a = false.
Proof. exact (GenEquivOrder.ind_gt_asymmetric mx a b). Qed.
Print Assumptions C13_translated_individual_gt_asymmetric.

(* CMA-ES minimises what it is told: the values CMADeme hands to tell() (Gen/GenDirection.v, translated from _values_for_cma; the driver translator
   requires tell() to receive them for the deme's most recent generation) order the individuals exactly as the problem does, in both
   directions — told(i) < told(j) iff individual i is strictly better than individual j *)
Theorem C13_translated_cma_is_told_the_problems_order mx (fs : list WMonad.F) i j d : (i < length fs)%nat -> (j < length fs)%nat ->
  F64.flt (nth i (GenDirection.gen_values_for_cma mx fs) d) (nth j (GenDirection.gen_values_for_cma mx fs) d) =
  if mx then F64.flt (nth j fs d) (nth i fs d) else F64.flt (nth i fs d) (nth j fs d).
Proof. exact (GenEquivDirection.told_order_is_problem_order mx fs i j d). Qed.
Print Assumptions C13_translated_cma_is_told_the_problems_order.
(* the local deme: scipy, a minimiser, is handed -evaluate for a maximisation problem (translated from LocalDeme.run_metaepoch) *)
Theorem C13_translated_local_objective_order {G} mx (f : G -> WMonad.F) (x y : G) :
  F64.flt (GenDirection.gen_local_objective mx f x) (GenDirection.gen_local_objective mx f y) = if mx then F64.flt (f y) (f x) else F64.flt (f x) (f y).
Proof. exact (GenEquivDirection.local_objective_order mx f x y). Qed.
Print Assumptions C13_translated_local_objective_order.
