(* Props/C07.v — the demes always form a well-formed tree of the configured height (structure part; the seed clauses are
   decided on the candidate data by the harness and by C10's filter theorems). *)
From Coq Require Import List Bool Arith Lia.
From HV Require Import Ord Sprout Tree TreeLemmas TreeInv TreeRun TreeIds Hist HistFacts.
From HV Require Import DriverPrim Driver DriverFacts GenDriver GenEquivDriver DriverCode.
From HV Require Import Ctor GenCtor GenEquivCtor.
From HV Require Import GenEquivIds.
Import ListNotations.

(* demes are numbered in creation order; deme 0 is the root.  In every reachable state: at least the root exists; every
   deme sits on a configured level; 0 <= started_at <= metaepoch counter; the root has no parent and level 0; every other
   deme has exactly one parent, created before it, exactly one level above, started no later than it *)
Theorem C07_well_formed c n0 s : 1 <= height c -> reach c n0 s ->
  1 <= length (demes s) /\
  forall i, i < length (demes s) ->
    let d := dnth i (demes s) in
    d_lvl d < height c /\ d_started d <= mcount s /\
    match d_par d with
    | None => i = 0 /\ d_lvl d = 0
    | Some p => 0 < i /\ p < i /\ d_lvl d = S (d_lvl (dnth p (demes s))) /\ d_started (dnth p (demes s)) <= d_started d
    end.
Proof. intros H R. exact (proj1 (proj2 (proj2 (reach_INV c n0 s H R)))). Qed.
Print Assumptions C07_well_formed.

(* structure is never rewritten: level, parent and start metaepoch of an existing deme never change *)
Lemma same_struct_step c s e s' : INV c s -> step c s e = Some s' -> forall i, i < length (demes s) ->
  d_lvl (dnth i (demes s')) = d_lvl (dnth i (demes s)) /\ d_par (dnth i (demes s')) = d_par (dnth i (demes s)) /\ d_started (dnth i (demes s')) = d_started (dnth i (demes s)).
Proof.
  intros I H i Hi. step_cases H; kind_cases; bd; cbn [demes]; auto.
  all: try solve [ rewrite ?dnth_upd; repeat match goal with |- context [if ?b then _ else _] => destruct b end; auto ].
  - rewrite dnth_map by assumption. auto.
  - sprout_abs. destruct (hib_on c).
    + rewrite set_hibs_dnth by (rewrite do_sprout_length; lia). rewrite do_sprout_prefix by assumption. destruct (existsb _ _); auto.
    + rewrite do_sprout_prefix by assumption. auto.
Qed.
Theorem C07_structure_is_stable c s e s' : INV c s -> step c s e = Some s' -> forall i, i < length (demes s) ->
  d_lvl (dnth i (demes s')) = d_lvl (dnth i (demes s)) /\ d_par (dnth i (demes s')) = d_par (dnth i (demes s)) /\ d_started (dnth i (demes s')) = d_started (dnth i (demes s)).
Proof. exact (same_struct_step c s e s'). Qed.
Print Assumptions C07_structure_is_stable.

(* every deme a round creates is a child of the deme its seed came from, one level below it, started now *)
Theorem C07_new_demes m seeds inits lvl_of ds i : length ds <= i < length ds + total_seeds seeds ->
  exists p, In p (map fst seeds) /\ let d := dnth i (do_sprout m seeds inits lvl_of ds) in
    d_par d = Some p /\ d_lvl d = S (lvl_of p) /\ d_started d = m /\ d_active d = true /\ d_hib d = false.
Proof.
  intros Hi. destruct (do_sprout_new m seeds inits lvl_of ds i Hi) as (p & Hp & Hd). exists p. split; [exact Hp|]. cbv zeta in *. tauto.
Qed.
Print Assumptions C07_new_demes.

(* ids are unique: _next_child_id names a child after its parent's id and the number of demes already on the child's level
   (did = that path of numbers); two demes with the same id are the same deme; the id names the level and the parent *)
Theorem C07_ids_unique c n0 s i j : 1 <= height c -> reach c n0 s -> i < length (demes s) -> j < length (demes s) -> did (demes s) i = did (demes s) j -> i = j.
Proof. exact (reachable_ids_unique c n0 s i j). Qed.
Print Assumptions C07_ids_unique.
Theorem C07_id_names_level_and_parent c s i p : WFT c s -> i < length (demes s) -> d_par (dnth i (demes s)) = Some p ->
  length (did (demes s) i) = d_lvl (dnth i (demes s)) /\ exists k, did (demes s) i = did (demes s) p ++ [k].
Proof. intros W. exact (id_names_level_and_parent c s W i p). Qed.
Print Assumptions C07_id_names_level_and_parent.

(* the seed of a new deme is an individual of the named generation of its parent: the parent's CURRENT population whenever the
   event is strict (every generator but the local-method one); history machine *)
Theorem C07_seed_from_parent s fixed p gi pos strict s' : hstep s (HBegin fixed (Some (p, gi, pos)) strict) = Some s' ->
  exists pd g t sd, nth_error (hdemes s) p = Some pd /\ nth_error (hgens pd) gi = Some (g, t) /\ nth_error g pos = Some sd /\
    (strict = true -> S gi = length (hgens pd)) /\
    nth_error (hdemes s') (length (hdemes s)) = Some {| hgens := []; hpend := []; hfixed := fixed; hseed := Some sd; hpar := Some p |}.
Proof. exact (seed_from_parent s fixed p gi pos strict s'). Qed.
Print Assumptions C07_seed_from_parent.

Example C07_example : exists s, ex_final = Some s /\ map d_par (demes s) = [None; Some 0; Some 0] /\ map d_lvl (demes s) = [0; 1; 1] /\ map d_started (demes s) = [0; 1; 1] /\ map (did (demes s)) [0; 1; 2] = [[]; [0]; [1]].
Proof. vm_compute. eexists. split; [reflexivity|]. repeat split. Qed.

(* ---------------------------------------------------------------- the same for the TRANSLATED code.
   Gen/GenDriver.v is regenerated from /repo's current pyhms/tree.py (run, run_step, run_metaepoch, run_sprout, _do_sprout, active_demes,
   active_non_leaves) and the run_metaepoch methods of EADeme, DEDeme, SHADEDeme, CMADeme, LocalDeme, LHSDeme, SobolDeme on every check;
   `code_moment c fuel n evs s`: s is a state the translated run() passes through on the event stream evs. *)
Theorem C07_translated_code_well_formed c fuel n evs s : 1 <= height c -> code_moment c fuel n evs s -> WFT c s.
Proof. exact (code_moment_wf c fuel n evs s). Qed.
Print Assumptions C07_translated_code_well_formed.

(* ---------------------------------------------------------------- the same for the TRANSLATED constructors.
   Gen/GenCtor.v is regenerated on every check from AbstractDeme.__init__, the __init__ of EADeme, DEDeme, SHADEDeme, CMADeme, LocalDeme,
   LHSDeme, SobolDeme (+ the run() the two samplers call), Individual.__init__ / evaluate / evaluate_population / create_population,
   init_from_config and DemeTree.__init__ (hv/translate/ctor_py.py); `ctor_ok lvl started local o pop`: the constructor built the deme
   `fresh_deme lvl started n` the machine's sprouting step assumes, its history holding exactly the start population pop. *)
(* a child is built on the level and at the metaepoch init_from_config names (C06_translated_ctors: fresh_deme lvl started _), nobody's child
   until add_child; a sprouted population engine starts from a population that contains a NEW individual with the seed's genome, evaluated by
   the child itself; a local deme starts from the parent's seed individual; the root is built on level 0 at metaepoch 0 without a seed *)
Theorem C07_translated_ctor_seed_in_start_population lvl started pop_size : 1 <= pop_size ->
  Forall (fun o => exists p, start_population o = Some p /\ In {| s_org := OSeedGenome; s_fit := true; s_own := true |} p)
    [gen_EADeme_init pop_size (gen_init_args lvl started true); gen_DEDeme_init pop_size (gen_init_args lvl started true); gen_SHADEDeme_init pop_size (gen_init_args lvl started true)]
  /\ start_population (gen_LocalDeme_init (gen_init_args lvl started true)) = Some [{| s_org := OSeedObject; s_fit := true; s_own := false |}].
Proof.
  intros H. split; [repeat constructor|].
  - destruct (EADeme_ctor_ok lvl started true pop_size H) as (_ & A & _). eexists. split; [exact A|apply engine_pop_has_seed].
  - destruct (DEDeme_ctor_ok lvl started true pop_size H) as (_ & A & _). eexists. split; [exact A|apply engine_pop_has_seed].
  - destruct (SHADEDeme_ctor_ok lvl started true pop_size H) as (_ & A & _). eexists. split; [exact A|apply engine_pop_has_seed].
  - now destruct (LocalDeme_ctor_ok lvl started true) as (_ & A & _).
Qed.
Print Assumptions C07_translated_ctor_seed_in_start_population.
Theorem C07_translated_tree_init n :
  init n = {| mcount := gen_tree_init_mcount; demes := [fresh_deme gen_tree_root_level (a_started gen_tree_root_args) n]; pc := PMain; seen := false; steps := 0; clock := n;
              born_after_seen := 0; last_round := ([], []) |}
  /\ a_level gen_tree_root_args = gen_tree_root_level /\ a_seed gen_tree_root_args = false.
Proof. exact (tree_init_is_init n). Qed.
Print Assumptions C07_translated_tree_init.

(* ids: DemeTree._next_child_id, translated from the current tree.py (ids as paths of numbers), computes for the child it is about to
   create exactly the `did` that C07_ids_unique / C07_id_names_level_and_parent are about; _do_sprout hands init_from_config that id for
   the parent the child is built for (checked by the driver translator); an id never changes afterwards *)
Theorem C07_translated_next_child_id c s p ch : WFT c s -> demes s <> [] -> forall ds, demes s = ds ++ [ch] -> d_par ch = Some p ->
  gen_next_child_id c ds p (did (demes s) p) = Some (did (demes s) (length ds)).
Proof. exact (next_child_id_is_did c s p ch). Qed.
Print Assumptions C07_translated_next_child_id.
Theorem C07_ids_never_change c s ch : WFT c s -> forall q, q < length (demes s) -> did (demes s ++ [ch]) q = did (demes s) q.
Proof. exact (did_stable c s ch). Qed.
Print Assumptions C07_ids_never_change.
