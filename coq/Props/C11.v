(* Props/C11.v — each generation is bred from the generation immediately before it.  History machine, every accepted stream. *)
From Coq Require Import ZArith Bool List.
From HV Require Import Ord Select SelectFacts Hist HistFacts.
Import ListNotations.

(* for consecutive generations G (completed when the log had t entries) and G' of one deme: every individual of G' either is an
   individual of G (same genome, same fitness, same evaluation) or was evaluated after G was completed *)
Theorem C11_bred_from_previous s d hd n g t g' t' i : hreach s -> nth_error (hdemes s) d = Some hd ->
  nth_error (hgens hd) n = Some (g, t) -> nth_error (hgens hd) (S n) = Some (g', t') -> In i g' -> In i g \/ t <= ist i.
Proof. exact (bred_from_previous s d hd n g t g' t' i). Qed.
Print Assumptions C11_bred_from_previous.
(* ... and that later evaluation was requested by this very deme for exactly that genome and returned exactly that fitness *)
Theorem C11_fresh_means_evaluated s d hd g t i : hreach s -> nth_error (hdemes s) d = Some hd -> In (g, t) (hgens hd) -> In i g ->
  exists d', nth_error (evlog s) (ist i) = Some (d', ig i, ifit i).
Proof. exact (stored_fitness_is_true s d hd g t i). Qed.
Print Assumptions C11_fresh_means_evaluated.
(* the machine refuses a generation that cannot be built from the previous one and the evaluations since: a carried
   individual of an OLDER generation is not accepted (the pinned tree's defect D2) *)
Example C11_stale_parents_rejected :
  hrun hinit [HBegin true None true; HEval 0 1 50; HEval 0 2 30; HGen 0 [Fresh 0; Fresh 1];      (* generation 0: {1, 2} *)
              HEval 0 3 10; HGen 0 [Carried 1; Fresh 0];                                          (* generation 1: {2, 3} *)
              HEval 0 4 5; HGen 0 [Carried 0; Fresh 0]] <> None /\                                (* generation 2 from generation 1: fine *)
  build {| evlog := [(0, 1%Z, 50%Z); (0, 2%Z, 30%Z); (0, 3%Z, 10%Z)]; hdemes := [] |} 0
        {| hgens := [([{| ig := 1%Z; ifit := 50%Z; ist := 0 |}], 2); ([{| ig := 3%Z; ifit := 10%Z; ist := 2 |}], 3)]; hpend := []; hfixed := true; hseed := None; hpar := None |}
        [Carried 1] = None.                                                                       (* nothing at index 1 of the LAST generation *)
Proof. split; [vm_compute; discriminate|reflexivity]. Qed.
