(* Props/C14.v — a seeded run is exactly reproducible (PARTIAL: what a model of generator threading can say; hash order, process
   state and third-party code are decided by the twin runs of the harness). *)
From Coq Require Import List Bool Arith ZArith.
From HV Require Import Rng GenEntropy GenEquivEntropy.
Import ListNotations.

(* every place in /repo's CURRENT sources that can introduce run-to-run variation draws from a generator state the seed controls,
   or produces a value that never enters the compared state; no unseeded generator, hash(), id(), clock, urandom or set iteration *)
Theorem C14_sources_controlled : forallb (fun r => controlled (snd r)) entropy_table = true.
Proof. exact sources_controlled. Qed.
Print Assumptions C14_sources_controlled.
Theorem C14_both_global_generators_seeded : 2 <= n_seeding_sites.
Proof. exact both_generators_seeded. Qed.
(* with the option set, the run does not depend on the prior state of the global generators *)
Theorem C14_independent_of_prior_state {Cfg State Result} (run_from : Cfg -> State * State -> Result) seed_np seed_py c s prior1 prior2 :
  run run_from seed_np seed_py c (Some s) prior1 = run run_from seed_np seed_py c (Some s) prior2.
Proof. exact (seeded_run_independent_of_prior run_from seed_np seed_py c s prior1 prior2). Qed.
Print Assumptions C14_independent_of_prior_state.
Example C14_table_is_not_empty : 10 <= length entropy_table.
Proof. exact table_nonempty. Qed.
