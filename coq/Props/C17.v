(* Props/C17.v — bound repair lands inside the box and only moves what it must.
   Statements are about the definitions GENERATED from /repo's apply_bounds (gen_apply_bounds), on
   every IEEE-754 binary64 value — not about reals and not about a sample. *)
From Coq Require Import ZArith Bool.
From HV Require Import F64 Bounds GenCommon GenEquivCommon F64Facts BoundsFacts BoundsZ BoundsZFacts.

(* every method returns a point of the box, for every input (finite or not) and every box lo <= hi;
   the only escape is NaN, which BoundsNaN.repair_not_nan excludes on the property's domain *)
Theorem C17_repair_in_box (m : method) (x lo hi : f64) :
  fle lo hi = true -> fis_nan (gen_apply_bounds m x lo hi) = false ->
  in_box1 (gen_apply_bounds m x lo hi) lo hi = true.
Proof. rewrite gen_apply_bounds_eq. exact (apply_bounds_in_box m x lo hi). Qed.
Print Assumptions C17_repair_in_box.

(* points inside the box (faces included) are returned bit for bit *)
Theorem C17_repair_fixes_inside (m : method) (x lo hi : f64) :
  in_box1 x lo hi = true -> gen_apply_bounds m x lo hi = x.
Proof. rewrite gen_apply_bounds_eq. exact (apply_bounds_fixes_inside m x lo hi). Qed.
Print Assumptions C17_repair_fixes_inside.

(* clip moves to the nearest face *)
Theorem C17_clip_below (x lo hi : f64) : fle lo hi = true -> flt x lo = true -> gen_apply_bounds MClip x lo hi = lo.
Proof. rewrite gen_apply_bounds_eq. exact (clip_below x lo hi). Qed.
Print Assumptions C17_clip_below.
Theorem C17_clip_above (x lo hi : f64) : fle lo hi = true -> flt hi x = true -> gen_apply_bounds MClip x lo hi = hi.
Proof. rewrite gen_apply_bounds_eq. exact (clip_above x lo hi). Qed.
Print Assumptions C17_clip_above.

(* what the methods PRESCRIBE, in exact arithmetic (integers; rationals by scaling): in the box, identity inside, clip to the
   nearest face, reflect congruent to +/- the input modulo twice the range, toroidal congruent to the input modulo the range
   (coordinates relative to the lower face).  For doubles the congruence is measured by the monitor within an ulp envelope. *)
Theorem C17_exact_clip (x lo hi : Z) : (lo <= hi)%Z ->
  ((x < lo -> clipZ x lo hi = lo) /\ (hi < x -> clipZ x lo hi = hi) /\ (lo <= x <= hi -> clipZ x lo hi = x))%Z.
Proof. exact (clipZ_nearest x lo hi). Qed.
Theorem C17_exact_reflect (x lo hi : Z) : (lo < hi)%Z ->
  (lo <= reflectZ x lo hi <= hi /\ (lo <= x <= hi -> reflectZ x lo hi = x) /\
   exists k, reflectZ x lo hi - lo = (x - lo) + 2 * (hi - lo) * k \/ reflectZ x lo hi - lo = - (x - lo) + 2 * (hi - lo) * k)%Z.
Proof. exact (reflectZ_spec x lo hi). Qed.
Print Assumptions C17_exact_reflect.
Theorem C17_exact_toroidal (x lo hi : Z) : (lo < hi)%Z ->
  (lo <= toroidalZ x lo hi <= hi /\ (lo <= x <= hi -> toroidalZ x lo hi = x) /\ exists k, toroidalZ x lo hi - lo = (x - lo) + (hi - lo) * k)%Z.
Proof. exact (toroidalZ_spec x lo hi). Qed.
Print Assumptions C17_exact_toroidal.

(* the pinned tree (903d392) violated the property: witnesses of defect D1, computed in Coq *)
Theorem C17_reflect_pinned_refuted :
  exists x lo hi, flt lo hi = true /\ in_box1 x lo hi = true /\ fle (reflect_pinned x lo hi) hi = false.
Proof. exact reflect_pinned_leaves_box. Qed.
Print Assumptions C17_reflect_pinned_refuted.
Theorem C17_toroidal_pinned_refuted :
  exists x lo hi, flt lo hi = true /\ fis_finite x = true /\ fle (toroidal_pinned x lo hi) hi = false.
Proof. exact toroidal_pinned_leaves_box. Qed.
Print Assumptions C17_toroidal_pinned_refuted.

(* non-vacuity: the premises are met by concrete non-trivial values (box (-0.1, 0.2), x = 0.5) *)
Example C17_premises_met :
  let lo := of_bits 0xBFB999999999999A in let hi := of_bits 0x3FC999999999999A in let x := of_bits 0x3FE0000000000000 in
  fle lo hi = true /\ fis_nan (gen_apply_bounds MReflect x lo hi) = false /\ in_box1 x lo hi = false
  /\ in_box1 (gen_apply_bounds MReflect x lo hi) lo hi = true.
Proof. vm_compute. auto. Qed.
