(* Props/C03.v — evaluation counts are exact; evaluation budgets are hard limits.
   Machine part: in EVERY state of EVERY accepted run (any configuration, any number of metaepochs and demes, every
   stream of verdicts / evaluation counts / candidates) the tree's total — the sum of the demes' own counters — equals
   the number of evaluation requests made so far (initial populations, every engine iteration, every local search,
   every child constructor).  Budget part: wrapper stacks of any depth (C16's model, regenerated from problem.py). *)
From Coq Require Import ZArith List Bool Arith.
From HV Require Import F64 WMonad Problem GenProblem GenEquivProblem ProblemFacts Ord Sprout Tree TreeLemmas TreeInv TreeRun.
Import ListNotations.
Local Open Scope nat_scope.

Theorem C03_total_is_sum_is_clock c n0 s : (1 <= height c)%nat -> reach c n0 s -> total_evals (demes s) = clock s.
Proof. intros H R. exact (proj1 (proj2 (reach_INV c n0 s H R))). Qed.
Print Assumptions C03_total_is_sum_is_clock.

(* the same accounting holds when the machine is started from ANY state that satisfies the invariants (a restored tree) *)
Theorem C03_accounting_inductive c s evs s' : INV c s -> run c s evs = Some s' -> total_evals (demes s') = clock s'.
Proof. intros I R. exact (proj1 (proj2 (INV_run c evs s s' I R))). Qed.
Print Assumptions C03_accounting_inductive.

Local Open Scope nat_scope.
(* one step adds to the clock exactly what it adds to the demes *)
Theorem C03_step_exact c s e s' : INV c s -> step c s e = Some s' -> total_evals (demes s') - total_evals (demes s) = clock s' - clock s.
Proof.
  intros I H. pose proof (INV_step c s e s' I H) as I'. destruct I as (_ & C & _), I' as (_ & C' & _). unfold CNT in *. now rewrite C, C'.
Qed.
Print Assumptions C03_step_exact.

(* the eval-limit conditions are decided on exactly that total *)
Theorem C03_eval_limit_on_total c s limit : gsc_eval (GEvalLimit limit (repeat 1 (height c))) (height c) s =
  Some (limit <=? fold_right (fun d a => nth (d_lvl d) (repeat 1 (height c)) 0 * d_evals d + a) 0 (demes s)).
Proof. reflexivity. Qed.

(* budgets are hard: wherever a cutoff wrapper sits in a stack, the objective is invoked at most (cutoff - count) more times,
   and the wrapper forwards exactly the first calls that reach it *)
Theorem C03_cutoff_hard {G} (f : G -> F) st b xs j s :
  nth_error st j = Some (KCutoff, s) ->
  (length (b_calls (snd (final f st b xs))) <= length (b_calls b) + Z.to_nat (eval_cutoff s - n_evals s))%nat.
Proof. exact (cutoff_hard f st b xs j s). Qed.
Print Assumptions C03_cutoff_hard.
Theorem C03_counter_law k vs s : k <> KWrapper -> n_evals (fold_left (local k) vs s) = (n_evals s + Z.of_nat (length vs))%Z.
Proof. exact (counter_fold k vs s). Qed.
Print Assumptions C03_counter_law.

(* non-vacuity: the example run of TreeRun.v is accepted, ends after 3 metaepochs with 3 demes and 74 evaluations *)
Example C03_example : exists s, ex_final = Some s /\ total_evals (demes s) = 74 /\ clock s = 74.
Proof. vm_compute. eexists. split; [reflexivity|]. split; reflexivity. Qed.
