(* Base/ListX.v — list lemmas used across the development. *)
From Coq Require Import ZArith List Bool Lia Sorting Permutation Arith RelationClasses.
From HV Require Import Ord.
Import ListNotations.

Lemma filter_length_le {A} (p : A -> bool) (l : list A) : length (filter p l) <= length l.
Proof. induction l as [|a l IH]; simpl; [lia|]. destruct (p a); simpl; lia. Qed.

Lemma Permutation_filter_length {A} (p : A -> bool) (l l' : list A) :
  Permutation l l' -> length (filter p l) = length (filter p l').
Proof.
  induction 1 as [|x l l' H IH|x y l|l l' l'' H1 IH1 H2 IH2]; simpl; try reflexivity.
  - destruct (p x); simpl; now rewrite IH.
  - destruct (p x), (p y); reflexivity.
  - now rewrite IH1.
Qed.

Lemma filter_none {A} (p : A -> bool) (l : list A) : (forall a, In a l -> p a = false) -> filter p l = [].
Proof. induction l as [|a l IH]; intros H; simpl; [reflexivity|]. rewrite (H a (or_introl eq_refl)). apply IH. intros b Hb. apply H. now right. Qed.

Local Open Scope Z_scope.
(* in an ascending list, fewer than c+1 elements are strictly below the element at index c *)
Lemma count_lt_split (s : list Z) (c : nat) (v : Z) :
  (forall a, In a (skipn c s) -> v <= a) -> (length (filter (fun g => (g <? v)%Z) s) <= c)%nat.
Proof.
  intros H. assert (filter (fun g => (g <? v)%Z) s = filter (fun g => (g <? v)%Z) (firstn c s) ++ filter (fun g => (g <? v)%Z) (skipn c s)) as ->.
  { rewrite <- filter_app. now rewrite firstn_skipn. }
  rewrite (filter_none _ (skipn c s)); [|intros a Ha; apply Z.ltb_ge; now apply H].
  rewrite app_nil_r. pose proof (filter_length_le (fun g => (g <? v)%Z) (firstn c s)) as L. rewrite firstn_length in L. lia.
Qed.
Lemma sorted_skipn_ge (s : list Z) (c : nat) :
  StronglySorted Z.le s -> (c < length s)%nat -> forall a, In a (skipn c s) -> nth c s 0 <= a.
Proof.
  revert s. induction c as [|c IH]; intros s Hs Hc a Ha.
  - destruct s as [|x s]; [simpl in Hc; lia|]. simpl in *. destruct Ha as [->|Ha]; [lia|].
    inversion Hs as [|? ? ? Hall]; subst. rewrite Forall_forall in Hall. now apply Hall.
  - destruct s as [|x s]; [simpl in Hc; lia|]. simpl in *. inversion Hs; subst. apply IH; auto. lia.
Qed.
Lemma count_lt_nth_sorted (s : list Z) (c : nat) :
  StronglySorted Z.le s -> (c < length s)%nat -> (length (filter (fun g => (g <? nth c s 0)%Z) s) <= c)%nat.
Proof. intros Hs Hc. apply count_lt_split. now apply sorted_skipn_ge. Qed.

Lemma sort_good_sorted (gs : list Z) : StronglySorted Z.le (sort_good gs).
Proof.
  unfold sort_good. pose proof (ZSort.StronglySorted_sort gs) as H.
  assert (Transitive (fun x y => is_true (ZOrder.leb x y))) as T.
  { intros x y z. unfold ZOrder.leb, is_true. rewrite !Z.leb_le. lia. }
  specialize (H T). induction H as [|a l Hs IH Hall]; constructor; auto.
  rewrite Forall_forall in *. intros x Hx. specialize (Hall x Hx). unfold is_true, ZOrder.leb in Hall. now apply Z.leb_le.
Qed.
Lemma sort_good_perm (gs : list Z) : Permutation gs (sort_good gs).
Proof. apply ZSort.Permuted_sort. Qed.
Lemma sort_good_length (gs : list Z) : length (sort_good gs) = length gs.
Proof. symmetry. apply Permutation_length, sort_good_perm. Qed.

(* the level-limit cut: strictly fewer than c+1 values are strictly better than the c-th best *)
Lemma count_better_than_cth (gs : list Z) (c : nat) :
  (c < length gs)%nat -> (length (filter (fun g => (g <? nth c (sort_good gs) 0)%Z) gs) <= c)%nat.
Proof.
  intros Hc. rewrite (Permutation_filter_length _ _ _ (sort_good_perm gs)).
  apply count_lt_nth_sorted; [apply sort_good_sorted | now rewrite sort_good_length].
Qed.
