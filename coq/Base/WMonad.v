(* Base/WMonad.v — the target of the translator for pyhms/core/problem.py: a state monad over a
   wrapper object's own fields plus an abstract inner problem.  `self` is re-read after every effect,
   so a read always sees the current fields (python attribute semantics). *)
From Coq Require Import ZArith List Bool.
From HV Require Import F64.
Import ListNotations.
Open Scope Z_scope.

Definition F := f64.
Record wobj := { n_evals : Z; eval_cutoff : Z; global_optima : F; precision : F; eta : option Z;
                 hit_precision : bool; durations : list Z }.
(* the inner problem: anything with an evaluate transition and a direction *)
Record inner_ops (G I : Type) := { i_eval : G -> I -> F * I; i_max : I -> bool }.
Arguments i_eval {G I}. Arguments i_max {G I}.

Section W.
  Context {G I : Type} (ops : inner_ops G I).
  Record world := { w_self : wobj; w_inner : I }.
  Definition W (A : Type) := world -> A * world.
  Definition ret {A} (a : A) : W A := fun w => (a, w).
  Definition bind {A B} (m : W A) (f : A -> W B) : W B := fun w => let '(a, w') := m w in f a w'.
  Definition get_self : W wobj := fun w => (w_self w, w).
  Definition get_inner : W I := fun w => (w_inner w, w).
  Definition inner_maximize (i : I) : bool := i_max ops i.
  Definition call_inner (x : G) : W F :=
    fun w => let '(v, i') := i_eval ops x (w_inner w) in (v, {| w_self := w_self w; w_inner := i' |}).
  (* time.perf_counter(): the model keeps only how many durations were recorded *)
  Definition tick : W Z := fun w => (0, w).
  Definition tsub (a b : Z) : Z := 0.
  Definition nan_coin_local := true.
  Definition upd (f : wobj -> wobj) : W unit := fun w => (tt, {| w_self := f (w_self w); w_inner := w_inner w |}).
  Definition set_n_evals v := upd (fun s => {| n_evals := v; eval_cutoff := eval_cutoff s; global_optima := global_optima s; precision := precision s; eta := eta s; hit_precision := hit_precision s; durations := durations s |}).
  Definition set_eta v := upd (fun s => {| n_evals := n_evals s; eval_cutoff := eval_cutoff s; global_optima := global_optima s; precision := precision s; eta := v; hit_precision := hit_precision s; durations := durations s |}).
  Definition set_hit_precision v := upd (fun s => {| n_evals := n_evals s; eval_cutoff := eval_cutoff s; global_optima := global_optima s; precision := precision s; eta := eta s; hit_precision := v; durations := durations s |}).
  Definition push_durations d := upd (fun s => {| n_evals := n_evals s; eval_cutoff := eval_cutoff s; global_optima := global_optima s; precision := precision s; eta := eta s; hit_precision := hit_precision s; durations := durations s ++ [d] |}).
End W.
Arguments world {I}. Arguments W {I}. Arguments ret {I A}. Arguments bind {I A B}. Arguments get_self {I}. Arguments get_inner {I}.
Arguments tick {I}. Arguments upd {I}. Arguments set_n_evals {I}. Arguments set_eta {I}. Arguments set_hit_precision {I}. Arguments push_durations {I}.
Arguments w_self {I}. Arguments w_inner {I}. Arguments Build_world {I}.
Definition nan_coin : bool := true.
Notation "x <- m ;; k" := (bind m (fun x => k)) (at level 61, m at next level, right associativity).
Notation "m ;;; k" := (bind m (fun _ => k)) (at level 61, right associativity).
