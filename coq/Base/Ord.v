(* Base/Ord.v — direction-aware ordering on fitness keys (fkey of a non-NaN double) and best-first sorting. *)
From Coq Require Import ZArith List Bool Lia Sorting Orders Permutation.
Import ListNotations.
Local Open Scope Z_scope.

(* goodness: smaller is better, whatever the direction of the problem *)
Definition good (mx : bool) (k : Z) : Z := if mx then - k else k.
Definition better (mx : bool) (a b : Z) : bool := good mx a <? good mx b.       (* a strictly better than b *)
Definition worse_than (mx : bool) (a b : Z) : bool := better mx b a.             (* Problem.worse_than on keys *)

Module ZOrder <: TotalLeBool.
  Definition t := Z.
  Definition leb := Z.leb.
  Theorem leb_total : forall a b, leb a b = true \/ leb b a = true.
  Proof. intros a b. unfold leb. destruct (Z.leb_spec a b); [left; reflexivity|right; apply Z.leb_le; lia]. Qed.
End ZOrder.
Module ZSort := Sort ZOrder.

(* best-first sort of goodness values (python: sorted(..., reverse=True) on Individuals; the result as a multiset of keys
   does not depend on stability) *)
Definition sort_good (gs : list Z) : list Z := ZSort.sort gs.
