(* Base/F64.v — IEEE-754 binary64 on Flocq (BinarySingleNaN), executable by vm_compute and after
   extraction, plus the numpy semantics of mod / floor_divide / clip / maximum / minimum.
   No proofs of properties here (see Proofs/F64Facts.v); only the two instance lemmas Flocq needs. *)
From Coq Require Import ZArith Bool List Lia.
From Flocq Require Import Core.Core IEEE754.BinarySingleNaN IEEE754.Bits.
Import ListNotations.
Open Scope Z_scope.

Definition prec := 53.
Definition emax := 1024.
Definition f64 := binary_float prec emax.
Lemma Hprec : FLX.Prec_gt_0 prec. Proof. unfold FLX.Prec_gt_0, prec; lia. Qed.
Lemma Hmax : Prec_lt_emax prec emax. Proof. unfold Prec_lt_emax, prec, emax; lia. Qed.
#[global] Existing Instance Hprec.
#[global] Existing Instance Hmax.

(* 64-bit pattern <-> float.  Every NaN pattern maps to the single NaN. *)
Definition of_bits (z : Z) : f64 := Binary.B2BSN 53 1024 (b64_of_bits z).
Definition to_bits (x : f64) : Z :=
  match B2SF x with
  | SpecFloat.S754_zero s => if s then 0x8000000000000000 else 0
  | SpecFloat.S754_infinity s => if s then 0xFFF0000000000000 else 0x7FF0000000000000
  | SpecFloat.S754_nan => 0x7FF8000000000000
  | SpecFloat.S754_finite s m e =>
      let m := Zpos m in
      let mag := if m <? 0x10000000000000 then m else (e + 1075) * 0x10000000000000 + (m - 0x10000000000000) in
      if s then 0x8000000000000000 + mag else mag
  end.

Definition fadd (x y : f64) : f64 := Bplus mode_NE x y.
Definition fsub (x y : f64) : f64 := Bminus mode_NE x y.
Definition fmul (x y : f64) : f64 := Bmult mode_NE x y.
Definition fdiv (x y : f64) : f64 := Bdiv mode_NE x y.
Definition fle (x y : f64) : bool := Bleb x y.
Definition flt (x y : f64) : bool := Bltb x y.
Definition feq (x y : f64) : bool := Beqb x y.
Definition fge (x y : f64) : bool := Bleb y x.
Definition fgt (x y : f64) : bool := Bltb y x.
Definition fneg (x : f64) : f64 := Bopp x.
Definition fabs (x : f64) : f64 := Babs x.
Definition fzero (s : bool) : f64 := B754_zero s.
Definition fone : f64 := Bone.
Definition fhalf : f64 := of_bits 0x3FE0000000000000.
Definition ftwo : f64 := of_bits 0x4000000000000000.
Definition fnan : f64 := B754_nan.
Definition pos_inf : f64 := B754_infinity false.
Definition neg_inf : f64 := B754_infinity true.
Definition fsign (x : f64) : bool := Bsign x.
Definition is_zero (x : f64) : bool := match x with B754_zero _ => true | _ => false end.
Definition fis_nan (x : f64) : bool := is_nan x.
Definition fis_finite (x : f64) : bool := is_finite x.
Definition copysign0 (y : f64) : f64 := fzero (fsign y).

(* exact float from  m * 2^e  (rounded NE; exact whenever representable) *)
Definition of_mant_exp (m e : Z) (szero : bool) : f64 := binary_normalize prec emax _ _ mode_NE m e szero.

(* C fmod: result has the sign of x, |r| < |y|, exact *)
Definition c_fmod (x y : f64) : f64 :=
  match x, y with
  | B754_nan, _ | _, B754_nan => fnan
  | B754_infinity _, _ => fnan
  | _, B754_zero _ => fnan
  | _, B754_infinity _ => x
  | B754_zero _, _ => x
  | B754_finite sx mx ex _, B754_finite sy my ey _ =>
      let e := Z.min ex ey in
      let X := Zpos mx * 2 ^ (ex - e) in
      let Y := Zpos my * 2 ^ (ey - e) in
      let R := Z.rem X Y in
      of_mant_exp (if sx then - R else R) e sx
  end.

(* floor of a float, exact *)
Definition c_floor (x : f64) : f64 :=
  match x with
  | B754_finite s m e _ =>
      if 0 <=? e then x else
      let M := if s then Zneg m else Zpos m in
      let q := M / 2 ^ (- e) in   (* Z division floors *)
      of_mant_exp q 0 s
  | _ => x
  end.

(* numpy npy_remainder (double): python-style modulo *)
Definition np_mod (a b : f64) : f64 :=
  let m := c_fmod a b in
  if is_zero b then m else
  match m with
  | B754_nan => m
  | _ =>
    if is_zero m then copysign0 b
    else if negb (Bool.eqb (flt b (fzero false)) (flt m (fzero false))) then fadd m b else m
  end.

(* numpy npy_floor_divide (double) *)
Definition np_floor_divide (a b : f64) : f64 :=
  if is_zero b then fdiv a b else
  let m := c_fmod a b in
  match m with
  | B754_nan => m
  | _ =>
    let d := fdiv (fsub a m) b in
    let d := if negb (is_zero m) && negb (Bool.eqb (flt b (fzero false)) (flt m (fzero false))) then fsub d fone else d in
    if negb (is_zero d) then
      let fl := c_floor d in
      if flt fhalf (fsub d fl) then fadd fl fone else fl
    else copysign0 (fdiv a b)
  end.

(* np.maximum / np.minimum propagate NaN of the first argument first; np.clip = minimum(maximum(x, lo), hi) *)
Definition np_maximum (a b : f64) : f64 := if fle b a || fis_nan a then a else b.
Definition np_minimum (a b : f64) : f64 := if fle a b || fis_nan a then a else b.
Definition np_clip (x lo hi : f64) : f64 := np_minimum (np_maximum x lo) hi.
(* np.where on a scalar condition *)
Definition np_where {A} (c : bool) (a b : A) : A := if c then a else b.

(* order-preserving integer key of a non-NaN bit pattern: sign-magnitude -> signed integer.
   -0.0 and +0.0 both map to 0; +-inf lie beyond every finite value. *)
Definition fkey (b : Z) : Z := if b <? 0x8000000000000000 then b else 0x8000000000000000 - b.
Definition bits_neg (b : Z) : Z := if b <? 0x8000000000000000 then b + 0x8000000000000000 else b - 0x8000000000000000.
Definition bits_is_nan (b : Z) : bool :=
  let m := if b <? 0x8000000000000000 then b else b - 0x8000000000000000 in 0x7FF0000000000000 <? m.
Definition bits_pos_inf : Z := 0x7FF0000000000000.
Definition bits_neg_inf : Z := 0xFFF0000000000000.
Definition binary_normalize_z (i : Z) : f64 := of_mant_exp i 0 false.
