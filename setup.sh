#!/bin/bash
# Offline build of the whole framework from files on disk: regenerate Gen/ from /repo, full .vo build.
set -e
cd "$(dirname "$0")"
export PYTHONPATH=${VERIF_REPO:-/repo} PYTHONHASHSEED=0
ulimit -s unlimited 2>/dev/null || true
/venv/bin/python - <<'PY'
import sys
import os
sys.path.insert(0, os.getcwd())
from hv import common
errs, tr = common.regen()
print("translator:", {k: len(v) for k, v in tr.items()}, "errors:", errs)
common.write_coqproject()
PY
cd coq
coq_makefile -f _CoqProject -o Makefile > /dev/null
timeout 3000 make -j16 -k 2>&1 | grep -v "^Axioms:\|^  \|^Closed under\|^[A-Za-z_.]* *:" | tail -40
echo "setup done"
